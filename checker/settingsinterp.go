package main

// The settings parser read by abstract interpretation of its syntax tree (T6): the apply function is executed
// over a symbolic configuration payload.  Values are
//
//	sMap{section}          the payload ("" = the top-level object) or a nested object found under a key
//	sEntry{section,key}    payload[key]
//	sConv / sOK            the two results of a converter func(interface{}) (T, bool) applied to an entry
//	sLoc{path} / sAddr     a part of the settings structure / a pointer to it
//	sStr                   a constant string (keys are concatenated from constants)
//	sRows / sRow           a table (slice literal of struct rows) and one of its rows
//
// Calls of module functions are inlined with their arguments bound (bounded depth), loops over a table are
// unrolled row by row.  Every store into a settings leaf is recorded with the payload key its value was
// converted from and with whether the store is control dependent on that conversion's ok result.

import (
	"go/ast"
	"go/token"
	"go/types"
	"strings"
)

type sval interface{}
type sMap struct{ section string }
type sEntry struct{ section, key string }
type sConv struct {
	conv string
	ent  sEntry
}
type sOK struct {
	conv string
	ent  sEntry
}
type sLoc struct{ path string }
type sAddr struct{ path string }
type sStr struct{ s string }
type sRow struct{ fields map[string]sval }
type sRows struct{ rows []sRow }

type settingsInterp struct {
	c       *Ctx
	info    *types.Info
	assigns []settingsAssign
	steps   int
}

type senv struct {
	vars   map[types.Object]sval
	parent *senv
}

func (e *senv) get(o types.Object) (sval, bool) {
	for x := e; x != nil; x = x.parent {
		if v, ok := x.vars[o]; ok {
			return v, true
		}
	}
	return nil, false
}

func (e *senv) set(o types.Object, v sval) {
	if o == nil {
		return
	}
	e.vars[o] = v
}

func joinPath(a, b string) string {
	if a == "" {
		return b
	}
	if b == "" {
		return a
	}
	return a + "." + b
}

func isConverterSig(sig *types.Signature) bool {
	if sig == nil || sig.Recv() != nil || sig.Params().Len() != 1 || sig.Results().Len() != 2 {
		return false
	}
	if _, isIface := sig.Params().At(0).Type().Underlying().(*types.Interface); !isIface {
		return false
	}
	b, ok := sig.Results().At(1).Type().Underlying().(*types.Basic)
	return ok && b.Kind() == types.Bool
}

func (si *settingsInterp) eval(e ast.Expr, env *senv, guards []sOK, depth int) sval {
	info := si.info
	e = ast.Unparen(e)
	if s, ok := stringConst(info, e); ok {
		return sStr{s}
	}
	switch x := e.(type) {
	case *ast.Ident:
		o := info.Uses[x]
		if o == nil {
			o = info.Defs[x]
		}
		if v, ok := env.get(o); ok {
			return v
		}
	case *ast.BinaryExpr:
		if x.Op == token.ADD {
			a, okA := si.eval(x.X, env, guards, depth).(sStr)
			b, okB := si.eval(x.Y, env, guards, depth).(sStr)
			if okA && okB {
				return sStr{a.s + b.s}
			}
		}
	case *ast.IndexExpr:
		m, okM := si.eval(x.X, env, guards, depth).(sMap)
		k, okK := si.eval(x.Index, env, guards, depth).(sStr)
		if okM && okK {
			return sEntry{m.section, k.s}
		}
	case *ast.SelectorExpr:
		switch b := si.eval(x.X, env, guards, depth).(type) {
		case sRow:
			return b.fields[x.Sel.Name]
		case sLoc:
			return sLoc{joinPath(b.path, x.Sel.Name)}
		case sAddr:
			return sLoc{joinPath(b.path, x.Sel.Name)}
		}
	case *ast.UnaryExpr:
		if x.Op == token.AND {
			if l, ok := si.eval(x.X, env, guards, depth).(sLoc); ok {
				return sAddr{l.path}
			}
			if cl, ok := ast.Unparen(x.X).(*ast.CompositeLit); ok {
				return si.eval(cl, env, guards, depth)
			}
		}
	case *ast.StarExpr:
		if a, ok := si.eval(x.X, env, guards, depth).(sAddr); ok {
			return sLoc{a.path}
		}
	case *ast.TypeAssertExpr:
		if ent, ok := si.eval(x.X, env, guards, depth).(sEntry); ok && x.Type != nil {
			if _, isMap := info.TypeOf(x.Type).Underlying().(*types.Map); isMap {
				return sMap{joinPath(ent.section, ent.key)}
			}
		}
	case *ast.CompositeLit:
		t := info.TypeOf(x)
		if t == nil {
			return nil
		}
		switch u := t.Underlying().(type) {
		case *types.Slice, *types.Array:
			var rows sRows
			for _, el := range x.Elts {
				if kv, ok := el.(*ast.KeyValueExpr); ok {
					el = kv.Value
				}
				if r, ok := si.eval(el, env, guards, depth).(sRow); ok {
					rows.rows = append(rows.rows, r)
				} else {
					rows.rows = append(rows.rows, sRow{map[string]sval{}})
				}
			}
			return rows
		case *types.Struct:
			row := sRow{map[string]sval{}}
			for i, el := range x.Elts {
				if kv, ok := el.(*ast.KeyValueExpr); ok {
					row.fields[identOf(kv.Key).Name] = si.eval(kv.Value, env, guards, depth)
				} else if i < u.NumFields() {
					row.fields[u.Field(i).Name()] = si.eval(el, env, guards, depth)
				}
			}
			return row
		case *types.Pointer:
			_ = u
		}
	case *ast.CallExpr:
		// a conversion keeps the value (`rawSection(raw)`, `time.Duration(v)`)
		if tv, ok := info.Types[x.Fun]; ok && tv.IsType() && len(x.Args) == 1 {
			return si.eval(x.Args[0], env, guards, depth)
		}
		if v, ok := si.call(x, env, guards, depth); ok {
			return v
		}
		// an arithmetic helper applied to a converted value keeps its origin (max(v, 0), clamp(v))
		for _, a := range x.Args {
			if cv, ok := si.eval(a, env, guards, depth).(sConv); ok {
				return cv
			}
		}
	}
	// a compound expression over a converted value (`time.Duration(v) * time.Millisecond`)
	var found sval
	ast.Inspect(e, func(n ast.Node) bool {
		if id, ok := n.(*ast.Ident); ok && found == nil {
			o := info.Uses[id]
			if v, ok := env.get(o); ok {
				if cv, ok := v.(sConv); ok {
					found = cv
				}
			}
		}
		return true
	})
	return found
}

// call inlines a module function: parameters (and the receiver) are bound to the evaluated arguments, the body is
// executed, and the value of its last return statement is the result.
func (si *settingsInterp) call(call *ast.CallExpr, env *senv, guards []sOK, depth int) (sval, bool) {
	fn, ok := calleeOf(si.info, call).(*types.Func)
	if !ok || depth > 5 {
		return nil, false
	}
	decl := si.c.P.declOf[fn]
	if decl == nil || decl.Body == nil || si.c.P.InfoFor(decl) != si.info {
		return nil, false
	}
	if isConverterSig(fn.Type().(*types.Signature)) {
		return nil, false
	}
	si.steps++
	if si.steps > 20000 {
		return nil, false
	}
	ne := &senv{vars: map[types.Object]sval{}}
	if decl.Recv != nil && len(decl.Recv.List) == 1 && len(decl.Recv.List[0].Names) == 1 {
		if se, ok := ast.Unparen(call.Fun).(*ast.SelectorExpr); ok {
			rv := si.eval(se.X, env, guards, depth)
			// a pointer receiver called on an addressable location
			if l, isLoc := rv.(sLoc); isLoc {
				if _, isPtr := si.info.TypeOf(decl.Recv.List[0].Type).Underlying().(*types.Pointer); isPtr {
					rv = sAddr{l.path}
				}
			}
			ne.set(si.info.Defs[decl.Recv.List[0].Names[0]], rv)
		}
	}
	i := 0
	if decl.Type.Params != nil {
		for _, fl := range decl.Type.Params.List {
			for _, n := range fl.Names {
				if i < len(call.Args) {
					v := si.eval(call.Args[i], env, guards, depth)
					// a settings struct passed by value is a copy that the callee returns: treated as the same location
					ne.set(si.info.Defs[n], v)
				}
				i++
			}
		}
	}
	var ret sval
	si.exec(decl.Body.List, ne, guards, depth+1, &ret)
	return ret, true
}

func (si *settingsInterp) record(target string, v sval, guards []sOK, pos token.Pos) {
	cv, ok := v.(sConv)
	if !ok {
		si.assigns = append(si.assigns, settingsAssign{"", "?", "?", target, false, pos})
		return
	}
	guarded := false
	for _, g := range guards {
		if g.conv == cv.conv && g.ent == cv.ent {
			guarded = true
		}
	}
	si.assigns = append(si.assigns, settingsAssign{cv.ent.section, cv.ent.key, cv.conv, target, guarded, pos})
}

func (si *settingsInterp) okConds(cond ast.Expr, env *senv, guards []sOK, depth int) []sOK {
	cond = ast.Unparen(cond)
	if be, ok := cond.(*ast.BinaryExpr); ok && be.Op == token.LAND {
		return append(si.okConds(be.X, env, guards, depth), si.okConds(be.Y, env, guards, depth)...)
	}
	if g, ok := si.eval(cond, env, guards, depth).(sOK); ok {
		return []sOK{g}
	}
	return nil
}

func (si *settingsInterp) assign(as *ast.AssignStmt, env *senv, guards []sOK, depth int) {
	info := si.info
	// v, ok := conv(entry)   /   m, ok := entry.(map[string]interface{})
	if len(as.Lhs) == 2 && len(as.Rhs) == 1 {
		lhsObj := func(i int) types.Object {
			id := identOf(as.Lhs[i])
			if id.Name == "_" {
				return nil
			}
			if o := info.Defs[id]; o != nil {
				return o
			}
			return info.Uses[id]
		}
		switch r := ast.Unparen(as.Rhs[0]).(type) {
		case *ast.CallExpr:
			if fn, ok := calleeOf(info, r).(*types.Func); ok && len(r.Args) == 1 && isConverterSig(fn.Type().(*types.Signature)) {
				if ent, ok := si.eval(r.Args[0], env, guards, depth).(sEntry); ok {
					env.set(lhsObj(0), sConv{fn.Name(), ent})
					env.set(lhsObj(1), sOK{fn.Name(), ent})
					return
				}
			}
		case *ast.TypeAssertExpr:
			env.set(lhsObj(0), si.eval(r, env, guards, depth))
			env.set(lhsObj(1), nil)
			return
		case *ast.IndexExpr:
			env.set(lhsObj(0), si.eval(r, env, guards, depth))
			env.set(lhsObj(1), nil)
			return
		}
	}
	for i, l := range as.Lhs {
		var rhs ast.Expr
		if len(as.Rhs) == len(as.Lhs) {
			rhs = as.Rhs[i]
		}
		if rhs == nil {
			continue
		}
		// a store into the settings structure?
		if loc, ok := si.eval(l, env, guards, depth).(sLoc); ok {
			// `settings.Sec = helper(settings.Sec, raw)` / `settings = helper(settings, raw)`: the helper works on that part
			if call, ok := ast.Unparen(rhs).(*ast.CallExpr); ok {
				same := false
				for _, a := range call.Args {
					if al, ok := si.eval(a, env, guards, depth).(sLoc); ok && al.path == loc.path {
						same = true
					}
				}
				if same {
					if _, ok := si.call(call, env, guards, depth); ok {
						continue
					}
				}
			}
			v := si.eval(rhs, env, guards, depth)
			if vl, isLoc := v.(sLoc); isLoc && vl.path == loc.path {
				continue // x = x
			}
			if loc.path != "" {
				si.record(loc.path, v, guards, as.Pos())
			}
			continue
		}
		if id, ok := ast.Unparen(l).(*ast.Ident); ok && id.Name != "_" {
			o := info.Defs[id]
			if o == nil {
				o = info.Uses[id]
			}
			env.set(o, si.eval(rhs, env, guards, depth))
		}
	}
}

func (si *settingsInterp) exec(list []ast.Stmt, env *senv, guards []sOK, depth int, ret *sval) {
	for _, st := range list {
		si.steps++
		if si.steps > 20000 {
			return
		}
		switch x := st.(type) {
		case *ast.AssignStmt:
			si.assign(x, env, guards, depth)
		case *ast.DeclStmt:
			if gd, ok := x.Decl.(*ast.GenDecl); ok {
				for _, sp := range gd.Specs {
					if vs, ok := sp.(*ast.ValueSpec); ok {
						for i, n := range vs.Names {
							if i < len(vs.Values) {
								env.set(si.info.Defs[n], si.eval(vs.Values[i], env, guards, depth))
							}
						}
					}
				}
			}
		case *ast.ExprStmt:
			if call, ok := ast.Unparen(x.X).(*ast.CallExpr); ok {
				si.eval(call, env, guards, depth)
			}
		case *ast.IfStmt:
			if x.Init != nil {
				si.exec([]ast.Stmt{x.Init}, env, guards, depth, ret)
			}
			g := guards
			if x.Else == nil {
				g = append(append([]sOK{}, guards...), si.okConds(x.Cond, env, guards, depth)...)
			}
			si.exec(x.Body.List, env, g, depth, ret)
			if x.Else != nil {
				si.exec([]ast.Stmt{x.Else}, env, guards, depth, ret)
			}
			// `if !ok { return }`: the rest of the list runs only when the conversion succeeded
			if u, ok := ast.Unparen(x.Cond).(*ast.UnaryExpr); ok && u.Op == token.NOT && x.Else == nil && len(x.Body.List) > 0 {
				leaves := false
				switch l := x.Body.List[len(x.Body.List)-1].(type) {
				case *ast.ReturnStmt:
					leaves = true
				case *ast.BranchStmt:
					leaves = l.Tok == token.CONTINUE || l.Tok == token.BREAK
				}
				if leaves {
					guards = append(append([]sOK{}, guards...), si.okConds(u.X, env, guards, depth)...)
				}
			}
		case *ast.BlockStmt:
			si.exec(x.List, env, guards, depth, ret)
		case *ast.RangeStmt:
			if rows, ok := si.eval(x.X, env, guards, depth).(sRows); ok {
				for _, r := range rows.rows {
					if x.Value != nil {
						env.set(si.info.Defs[identOf(x.Value)], r)
					}
					si.exec(x.Body.List, env, guards, depth, ret)
				}
			} else {
				si.exec(x.Body.List, env, guards, depth, ret)
			}
		case *ast.ForStmt:
			si.exec(x.Body.List, env, guards, depth, ret)
		case *ast.SwitchStmt:
			for _, cc := range x.Body.List {
				if cl, ok := cc.(*ast.CaseClause); ok {
					si.exec(cl.Body, env, guards, depth, ret)
				}
			}
		case *ast.TypeSwitchStmt:
			for _, cc := range x.Body.List {
				if cl, ok := cc.(*ast.CaseClause); ok {
					si.exec(cl.Body, env, guards, depth, ret)
				}
			}
		case *ast.ReturnStmt:
			if len(x.Results) >= 1 && ret != nil {
				if v := si.eval(x.Results[0], env, guards, depth); v != nil {
					*ret = v
				}
			}
		}
	}
}

// interpretSettings runs the apply function over a symbolic payload and returns the recorded stores.
func interpretSettings(c *Ctx, info *types.Info, applyFd *ast.FuncDecl, root, rawObj types.Object) []settingsAssign {
	si := &settingsInterp{c: c, info: info}
	env := &senv{vars: map[types.Object]sval{}}
	env.set(root, sLoc{""})
	env.set(rawObj, sMap{""})
	si.exec(applyFd.Body.List, env, nil, 0, nil)
	// one record per (target, section, key, conv, guarded)
	seen := map[string]bool{}
	var out []settingsAssign
	for _, a := range si.assigns {
		k := strings.Join([]string{a.target, a.section, a.key, a.conv}, "|")
		if a.guarded {
			k += "|g"
		}
		if seen[k] {
			continue
		}
		seen[k] = true
		out = append(out, a)
	}
	return out
}
