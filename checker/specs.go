package main

import (
	"os"
	"runtime/debug"
)

func printStack() { os.Stderr.Write(debug.Stack()) }

var baseAssumptions = []string{
	"go/packages, go/types, go/cfg, go/ssa and the VTA/CHA call graph represent the program faithfully",
	"the rule tables in /verif/checker (unit sources, exact decimal operations, accepted idioms, admitted symbols) were confirmed by reading the code",
	"level 'other': a structural necessary condition of the property is decided for all inputs/schedules at once; the behavioural statement itself is not proved",
}

func allSpecs() map[string]*PropSpec {
	m := map[string]*PropSpec{}
	add := func(s *PropSpec) {
		s.Assumptions = append(append([]string{}, baseAssumptions...), s.Assumptions...)
		m[s.ID] = s
	}
	add(&PropSpec{
		ID:          "C15",
		Technique:   "effect analysis of every range-over-map, sync.Map.Range and channel-receive loop (append/overwrite/exit effects with key aliases and sort sanitisers), history-independence rules of loader cache and workspace index",
		Explanation: "History independence (responses are a function of the current contents, not of how the server got there): the workspace freshness rules C12-CLEAR / C12-REFRESH / C12-PAIR / T1 / T2, the loader cache rules G-CACHEPATH / G-CACHEINDEP / G-STATE / G-INVALIDATE and C-CACHE (per-document caches dropped on change); C12-UPDATE (the workspace is told about every change) and the growth rule of C20-ONCE (a path is appended to FileOrder only when it is not listed yet, so a file that is edited keeps its position and the order of aggregated files does not depend on the edit history). M-ORDER: every range over a Go map and every sync.Map.Range callback in non-test module code is classified by the effects of its body (interprocedural, parametric summaries); a loop whose iteration order can reach a response, notification or persistent index without passing a total sort is reported. Decides the map-order clause of determinism for all 2^n iteration orders at once. Loops that receive values from a channel are judged like map loops (arrival order depends on scheduling).",
		NotDecided:  "non-determinism from sources other than Go map order (time.Now in date completion by design; file-system order is sorted by the loader); ties in unstable sorts over already-deterministic input.",
		Rules:       []func(*Ctx){ruleMapOrder, ruleDeterminismState},
	})
	add(&PropSpec{
		ID:          "C02",
		Technique:   "exact-operation tables over decimal calls on the verdict path (AST+types, SSA call sites), sibling agreement of the two analysis entry points by guard shape, sign-handling check of the number normaliser by slicing",
		Explanation: "D-EXACT: every operation on decimal.Decimal in parser/analyzer/workspace/server (the path lexer value -> parseAmount -> CheckBalance/sumByCommodity -> message) is from the exact set (Add, Sub, Mul, Neg, Abs, IsZero, IsNegative, Cmp, String, NewFromString ...); T3: both analysis entry points call the balance check for every transaction and emit a diagnostic iff !Balanced; T4: the codes the analyzer writes are exactly the codes the server's filter switches on and UNBALANCED/MULTIPLE_INFERRED are gated by exactly the unbalanced-transactions setting; M-ORDER on the message builder. B-REAL: every read of a posting's amount below the balance check is made on a posting from the list that passed the virtual-posting filter (or behind a test of its Virtual field).",
		NotDecided:  "that separator normalisation, sign placement and cost conversion compute the intended number (value semantics of normalizeNumber, parseAmount, sumByCommodity); hledger's own balancing rule.",
		Rules:       []func(*Ctx){ruleDecimalExact("internal/parser", "internal/analyzer", "internal/workspace", "internal/server"), ruleNumberSign, ruleT3, ruleT4, ruleMapOrder, ruleBalanceReal, ruleDiagnosticsOnlyGrow, ruleTreeReadOnly},
	})
	add(&PropSpec{
		ID:          "C12",
		Technique:   "effect summaries of index add/remove with parameter binding (inverse-operation table), snapshot coverage, must-clear of memoised caches per critical section, role-based fixpoint checks of the include-tree refresh",
		Explanation: "T1: the workspace index's add and remove methods touch the same aggregates field by field and every add operation has an inverse on the remove side (+= / decrement, keyed append / keyed filter, per-file slot set / delete); an aggregate stored by overwrite and removed by key is reported as non-invertible. T2: the snapshot exports every aggregate. C12-CLEAR: every critical section of the workspace that mutates the resolved tree clears all memoised derived caches unconditionally. C12-UPDATE: a call of Workspace.UpdateFile in the notification handlers is not control dependent on the text (no nothing-relevant-changed short cut). C12-REFRESH: the include-tree refresh is a fixpoint that recomputes reachability in every iteration and is invoked whenever the include list changed (element-wise comparison). M-ORDER: no map-iteration order reaches the index.",
		NotDecided:  "equality of the incremental and the rebuilt view as values over update sequences (needs execution); file-system effects (files unreadable during refresh).",
		Rules:       []func(*Ctx){ruleT1T2, ruleC12Clear, ruleC12Refresh, ruleC12Pair, ruleC12Update, ruleWorkspaceApplies, ruleWorkspaceReadsDisk, ruleMapOrder},
	})
	add(&PropSpec{
		ID:          "C10",
		Technique:   "typestate of include resolution on go/cfg: ancestor-stack discipline (mark/unmark on all exits), must-pass-through of cycle and already-loaded tests, canonical-path check of the resolver's return sites (SSA)",
		Explanation: "G-ANCESTOR: the mark placed in the set tested by the cycle check is removed on every exit of the function that places it (ancestor-stack discipline; otherwise a diamond is a false cycle). G-GUARD: every recursive load is reached only after the membership test that returns on a cycle (termination on cyclic graphs). G-DEPTH: the value compared with the depth limit is the length of the include stack. G-CONTINUE: the loop over include directives has no return/break, and every load error built on the recursion carries the include directive's range. Decided on go/cfg for all include graphs at once. G-CANON: every path the resolver returns is the result of filepath.Clean/Join/Abs (a file is identified by its resolved path in the visited set, the cache and the result). G-LOADSTATE: the per-load state consists of the ancestor set and the loaded set only; any further map or slice (a memo between include steps) is reported as undecided.",
		NotDecided:  "path canonicalisation and glob matching semantics (ResolvePathSafe, doublestar); that each reachable file appears exactly once as a value-level fact (the 'loaded' set is checked only through G-CACHEPATH in C11).",
		Rules:       []func(*Ctx){ruleLoaderCycle},
	})
	add(&PropSpec{
		ID:          "C11",
		Technique:   "control-dependence analysis of the include step w.r.t. the cache lookup (AST+cfg), type reachability of the cache entry, hit-path use of every cache-entry field (SSA slicing), invalidation control dependence in change/save handlers",
		Explanation: "G-CACHEPATH: every path that records an included file in the result continues to the call that processes that file's own include directives, so a cache hit and a cache miss do the same work; the cache value type holds per-file parse results only. G-INVALIDATE: the didChange and didSave handlers drop the changed file's cache entry on a path not conditioned on a workspace; the invalidation methods mutate the cache under the loader's write lock. G-ANCESTOR/G-GUARD/G-DEPTH as in C10 (cycle verdicts must not depend on history either). G-CACHEFIELDS: every field of the cache entry is read from an entry found by the cache lookup (nothing that the first load reports is lost on a hit). G-INVALIDATE is decided by control dependence (nested guard and early return alike). G-CACHEPURE: nothing of the including directive (its position) flows into a cache entry. G-LOADSTATE: the per-load state consists of the ancestor set and the loaded set only; any further map or slice is reported as undecided.",
		NotDecided:  "equality of results across a call history as values (needs execution); staleness of files changed on disk without an invalidation notification.",
		Rules:       []func(*Ctx){ruleLoaderCache, ruleLoaderCycle},
	})
	add(&PropSpec{
		ID:          "C13",
		Technique:   "must/may lockset data-flow over SSA with VTA call graph, dominance of version guards over publication, synchronous version numbering at go statements, publication-attempt dominance of every return of the background analysis",
		Explanation: "C-PUBLISH: every PublishDiagnostics call reachable from a goroutine the server starts is (directly, or through every caller of the function value it sits in) inside a critical section and on the 'equal' side of a comparison between per-document state keyed by the document and the version the analysis was started for; every go statement that starts such an analysis passes a version obtained by a call made synchronously in the notification handler to a function that increments that state under the same lock. C-ROOTS: census of go statements, serial dispatch (no AsyncHandler). Decided for all interleavings at once. C13-SKIP: every return of the background analysis is dominated by a publication attempt, or depends only on the request itself (no client, no path), never on state left by earlier analyses. C13-BUMP: a version bump whose result is used (it supersedes the analysis in flight) is followed on every path by the start of the analysis that receives the new version.",
		NotDecided:  "that the diagnostics of the latest version equal 'the diagnostics of the latest text' as values (relies on analysis being a function of the text, C15); fairness of the Go scheduler.",
		Rules:       []func(*Ctx){ruleConcRoots, rulePublish, ruleBump, ruleVersionMonotone},
	})
	add(&PropSpec{
		ID:          "C14",
		Technique:   "interprocedural may/must lockset analysis (lock order, blocking calls, consistent locksets per shared field), field-based taint for leaked guarded references, read-modify-write slicing across critical sections, goroutine reachability of workspace-tree writers",
		Explanation: "C-ORDER: may-lockset dataflow over SSA (interprocedural, through closures via the VTA call graph): no mutex is acquired while it may already be held (incl. nested read locks), and the held->acquired graph is acyclic. C-BLOCK: client methods whose implementation awaits a response are never reachable from a handler without a go statement and never called with a lock held; notifications are sent with at most the publication lock held. C-LOCKSET: every field of the long-lived shared structs that is written outside the initialisation phase and accessed from a server-started goroutine has a common lock over all its accesses (must-lockset). C-LEAK: getters that hand out a guarded map/pointer field are listed; in-place mutation of a handed-out object and writes through a handed-out reference are reported. C-RMW: a value stored into lock-protected shared state (field, map element, sync.Map entry) never derives - through callees' results or callers' arguments - from a read of the same field made in a different critical section when some writer of the field runs on a server-started goroutine (no lost update). C14-ORDER: no function that writes the workspace's resolved include tree is reachable from a goroutine the server starts (the workspace follows the notifications synchronously and in order). C-ROOTS.",
		NotDecided:  "races inside third-party libraries; aliasing beyond the field-based abstraction; that each response equals the state at handling time as a value.",
		Assumptions: []string{"Initialize is handled before any other message (LSP lifecycle)", "handlers are dispatched serially by jsonrpc2 (re-checked by C-ROOTS)"},
		Rules:       []func(*Ctx){ruleConcRoots, ruleLockOrder, ruleBlock, ruleLockset, ruleLeak, ruleRMW, ruleSyncUpdate, ruleUnlock},
	})
	add(&PropSpec{
		ID:          "C19",
		Technique:   "settings model extracted from the parser (key, converter, guarded store per leaf incl. helper functions), normaliser guard table, panic-instruction scan of everything reachable from the parser, lockset and read-modify-write analysis, overlay check of update functions",
		Explanation: "T6: every leaf of the settings struct (enumerated from the type definitions) is assigned by the settings parser in a nested-key and a dotted-key form with the same spelling, each assignment guarded by its converter's ok result and fed from the converted value (ill-typed or unknown entries leave the previous value unchanged); no key feeds two leaves; every numeric leaf has a non-positive guard in the normaliser; every leaf is read by some feature outside the parser. C19-CONVERT: converters accept by type only (no range filter that would bypass the normaliser's default fallback, boolean spellings true/false only). C19-TOTAL: no module function reachable from the settings parser contains an unchecked assertion, index, slice, non-constant division or panic, and its recursion is on a member of its argument. C-LOCKSET on the settings struct; C-RMW: a configuration refresh reads the current settings, overlays the payload and stores the result inside one critical section, so that of two concurrent refreshes neither loses the other's recognised values. C19-OVERLAY: outside the initialisation phase every store into the settings derives from the current settings, and every function applied to the current settings at the call sites of the update routine returns a value computed from its argument (a wholesale replacement is only accepted from the constructor and Initialize). C19-PULL: every path through the configuration-change handler starts a pull of the client's configuration (no throttle or early return can drop a change).",
		NotDecided:  "feature switches after initialisation (capabilities are computed once in Initialize); that a recognised value changes behaviour in the intended way (value semantics of each feature).",
		Rules:       []func(*Ctx){ruleSettings, ruleLockset, ruleRMW, ruleOverlay, rulePull, ruleLoaderCache, rulePublish, ruleIndent},
	})
	wsFresh := []func(*Ctx){ruleT1T2, ruleC12Clear, ruleC12Refresh, ruleC12Pair, ruleC12Update, ruleWorkspaceApplies, ruleWorkspaceReadsDisk}
	add(&PropSpec{
		ID:          "C18",
		Technique:   "guard-shape agreement of analysis entry points incl. helpers, writer/reader table of diagnostic codes vs. settings filter (decision table from switch or if-chain), control dependence of emission on declared and seen sets, SSA slicing of declaration sources",
		Explanation: "T3: both analysis entry points run the undeclared-account/commodity checks under the same guard (len(declared set) > 0) for every transaction. T4: each warning code is gated by exactly its own settings field, the filter is applied to every analyzer diagnostic, its default is 'publish'. T9: the undeclared-commodity check visits every amount-bearing access path of a posting (amount, cost, assertion; derived from the ast type definitions). C18-ONCE: one warning per symbol and transaction (declared set and per-transaction seen set both guard the emission). C18-SOURCES: on the diagnostics path the declarations handed to the analyzer depend on the workspace's declared sets AND on the include tree loaded from the analysed content, and the workspace lookups are not conditioned on any setting. Workspace freshness rules (C12-CLEAR/REFRESH/PAIR, T1/T2) because declared sets are served from the workspace caches; C-LEAK because those sets are handed out by reference (a write into them by the analysis makes later warnings depend on which documents were analysed before); C18-SOURCES also requires the read of the document's own include tree not to be control dependent on the existence of a workspace.",
		NotDecided:  "the declared-predicate itself (prefix / standard top-level category matching in isAccountDeclared).",
		Rules:       append([]func(*Ctx){ruleT3, ruleOwnGuard, ruleTreeReadOnly, ruleT4, ruleT9("T9", [2]string{"internal/analyzer", "checkUndeclaredCommodities"}), ruleSeenOnce, ruleC18Sources, ruleLeak}, wsFresh...),
	})
	add(&PropSpec{
		ID:          "C20",
		Technique:   "exact-operation table for decimal sums, sibling agreement of balance calculators, SSA identity of the transaction list feeding sums and counts, once-only structure of AllTransactions and de-duplicated growth of FileOrder (cfg must-pass-through)",
		Explanation: "D-EXACT: hover sums use exact decimal operations only (Add; String rendering). T10: the two account-balance calculators aggregate postings identically (skip amount-less postings, accumulate Quantity with Add). C20-TREE: in the hover handler balances are summed over the resolved tree's AllTransactions() and the very same list feeds the posting/transaction counts. C20-ONCE: AllTransactions is 'primary once + one pass over FileOrder' and every growth site of FileOrder is de-duplicated. Loader rules (G-ONCE, G-CACHEPATH, G-CACHEINDEP) and workspace freshness rules (C12-*) because the set of aggregated files comes from them. M-ORDER on the hover builders.",
		NotDecided:  "the sums and counts as values; which postings 'count' (value semantics); number-notation parsing (normalizeNumber).",
		Rules:       append([]func(*Ctx){ruleDecimalExact("internal/analyzer", "internal/server", "internal/parser"), ruleNumberSign, ruleC20, ruleLoaderCache, ruleLoaderCycle, ruleMapOrder}, wsFresh...),
	})
	add(&PropSpec{
		ID:          "C09",
		Technique:   "SSA slicing of Location constructions (URI vs journal key pairing), return-site analysis of the tree/primary-path function with control dependence, component coverage of the dedup equality, map-iteration-order effect analysis",
		Explanation: "H-PRIMARY: the function that returns a resolved tree together with the path of its primary journal pairs the workspace tree with the workspace root journal path and the per-document tree with the document path; definition/references/rename pass tree and path from one such lookup; the primary journal is keyed by that path. T9: commodity references visit amount, cost and assertion commodities. T11: the three reference collectors share one skeleton (sorted paths, URI of each location derived from the path of the journal being walked, common sort+dedup), the dedup equality covers URI and all coordinates, rename edits are a 1:1 map of the references including declarations. C12-PAIR and workspace freshness: the tree that is searched is maintained consistently. M-ORDER. C09-TREE: the journal map that is searched contains the files of the given tree on every return (no short cut that looks at the requesting document only); the workspace tree also serves the workspace root itself.",
		NotDecided:  "that the range inside each location is the right one (C08); parse equality after applying the edits; unsaved edits of files that are not open.",
		Rules:       append([]func(*Ctx){ruleC09, ruleT9("T9", [2]string{"internal/server", "findCommodityReferences"}), ruleAllSitesOfPosting, ruleMapOrder, ruleLoaderCycle}, wsFresh...),
	})
	add(&PropSpec{
		ID:          "C16",
		Technique:   "SSA pipeline analysis of the completion handler (generate, filter, rank, truncate by data flow and dominance), comparator direction check, edit-range stores traced to the request position, unit analysis",
		Explanation: "I-LIMIT: the list returned by completion is the ranked list or its zero-based prefix ranked[:MaxResults] taken under len(ranked) > MaxResults, and the limit is read only by the normaliser, the settings parser and that truncation (so a smaller maximum yields a prefix of a larger one and at most the maximum is returned). I-ORDER: generate -> filter -> rank -> truncate by data flow. I-FLAG: the filter's mode argument is the unmodified fuzzyMatching setting from the per-request settings snapshot. I-RANK: the ranking comparator is descending in score and in use count. I-RANGE: the replace range ends at the request position, its start is a byte offset clamped to the cursor and converted to UTF-16. M-ORDER (item order), workspace freshness (names offered exist in the workspace) and T6 for the two completion settings. I-PAIR: the account index's list (All) and its per-prefix view (ByPrefix) are extended in the same functions (the lookup trusts ByPrefix when the prefix key exists).",
		NotDecided:  "soundness/completeness of the offered set against the symbol table, the fuzzy and prefix predicates, the context classifier (value semantics).",
		Rules:       append([]func(*Ctx){rulePipeline, rulePairedFields, ruleAnalysisFromAnalyzer, ruleMapOrder, ruleUnits("module", nil)}, wsFresh...),
	})
	add(&PropSpec{
		ID:          "C08",
		Technique:   "unit (dimension) analysis over SSA: UTF-16 units, bytes, runes, 0/1-based lines and columns; mixing, stores into protocol positions, index/slice operands and clamps",
		Explanation: "units: every integer in the module gets a unit (byte offset / rune count / UTF-16 code unit / line) from a table of sources (len, strings.Index*, utf8.*, lsputil conversions, lexer and AST position fields, protocol.Position fields, semantic-token fields) and the unit is propagated through arithmetic, conversions, phis, calls and struct fields. Reported: arithmetic or comparison between different units (U-MIX), a value stored into a field of another unit, e.g. a rune or byte count into protocol.Position.Character (U-STORE), a wrong-unit argument to a conversion helper (U-ARG), a string indexed by a non-byte quantity (U-INDEX). The column unit of the lexer/AST is read from the lexer's own advance code on every run. C08-LOADERR: a diagnostic that takes its range from an include.LoadError is built only when the error's kind is not the parse-error kind (whose range is a position inside the included file, not in the open document).",
		NotDecided:  "that a unit-correct range is the right range (payee column estimated from the date width, fold end taken from the next token); containment in the document as a value-level fact.",
		Rules:       []func(*Ctx){ruleUnits("module", nil), ruleUnitClamp, ruleLoadErrRange, ruleLexerCursor},
	})
	add(&PropSpec{
		ID:          "C17",
		Technique:   "table check of the token legend against constants and stores (SSA constant sets), SSA slicing of full/range/delta handlers (exact document text, encoder output identity, edit constructions, result-id guard), token start and width from the lexer interpretation",
		Explanation: "T5: every TokenType constant indexes a legend entry of its own kind and every value stored into semanticToken.tokenType is a constant below the legend length. T12: full, range and delta handlers encode the tokenizer's output for the text read from the document store in the same request; the array cached under a result id is exactly the array sent with that id; range requests never touch the cache and are the full token list restricted by the line filter; a delta is computed from (cached data, newly encoded data) and only when the cached id equals previousResultId. L-POS: every lexer token takes its start position before its scanner consumes input (zero-width constructor only for EOF). T15w: token kinds whose value drops delimiters (derived from the lexer) get their width adjusted in the semantic tokenizer. units: token line/col/length are UTF-16 quantities. The tokenizer is handed the document text itself (not a fragment); edits are found as SemanticTokensEdit constructions wherever they are built; a whole-array replacement deletes exactly len(cached data).",
		NotDecided:  "ordering and non-overlap of the emitted sequence (run-time sortedness), unsigned wrap-around in the encoder and in edit computations, equality of the client-side rebuilt array with the full response over request histories beyond T12.",
		Rules:       []func(*Ctx){ruleSemantic, ruleEncoderFresh, ruleLexPos, ruleLexerCursor, ruleUnits("module", nil)},
	})
	add(&PropSpec{
		ID:          "C01",
		Technique:   "SSA data-flow and field-sensitive slicing of the change handler (thread of the document text through the loop over content changes), unit analysis of offsets (UTF-16 vs byte), census of stores into the document store",
		Explanation: "C01-THREAD: in the change handler the stored text is a loop-carried value whose only sources are the stored text, a range-less change's text and the ranged applier applied to the running text, visited in list order. C01-STORE: that value is stored after the loop under the notification's URI; didOpen stores the opened text unconditionally; didClose deletes it. C01-OPTIONAL: whole-document replacement is selected by a nil test of an optional *Range, and the server binary routes textDocument/didChange to that handler through an interceptor installed on the connection. C01-CONV: the UTF-16 column is converted against the text of its own line (clamp to line end), lines past the end map to the end of the text. C01-CLAMP: both splice bounds depend on both converted positions (ordering swap) and on len(content). units: UTF-16 / byte / rune quantities are never mixed. C01-SOURCE: every parse on a handler path reads the text from the document store in the same request. C-CACHE: per-document caches filled by handlers are dropped by the change handler. C-FRESH: state written by background goroutines and read by handlers is reported.",
		NotDecided:  "equality of the stored text with a reference client's buffer over all histories (needs execution); invalid UTF-8 (cannot arrive through JSON).",
		Rules:       []func(*Ctx){ruleC01, ruleLineStarts, ruleChangeApplied, ruleUnits("module", nil)},
	})
	fmtRules := []func(*Ctx){ruleFormatterEdits, ruleT14, ruleT15, ruleDecimalLossyGuard, ruleUnits("module", nil), ruleRepeat, ruleErrorsRecorded, ruleGroupingSign}
	add(&PropSpec{
		ID:          "C04",
		Technique:   "SSA value-flow of every TextEdit construction (ranges, text), control dependence of edits on the posting-line and error-line sets, field coverage tables between parser and formatter, unit analysis of columns",
		Explanation: "D-LOSSY-GUARD: a rounding display format is applied to a quantity only under a test of that quantity's Exponent() (no digit loss). C04-ERRS: posting lines on which the parser reported an error are not rewritten, and the formatting handler passes the parser's errors to the formatter. T13: the formatter builds exactly two kinds of edits - a whole-line rewrite of a posting line and a deletion of trailing blanks with constant empty text - so non-posting lines change only by loss of trailing blanks. T14: every source-derived field the parser records in a posting (status, virtual kind, account, quantity, raw quantity, sign placement, commodity symbol/side/quoting, cost, assertion, comment) is read by the posting formatter. T15: delimiters the lexer drops (quotes of a quoted commodity, the ';' of a comment) are restored exactly. units on edit ranges. Workspace freshness (commodity formats come from the workspace caches). Edits are found as TextEdit constructions in SSA form; the conditions are control dependences (a guard may be written as nested if or early continue, in the loop or in a helper).",
		NotDecided:  "that re-parsing the formatted text yields the same tree (round-trip equality as a value); the effect of formats on meaning beyond digit loss.",
		Rules:       append(append([]func(*Ctx){}, fmtRules...), wsFresh...),
	})
	add(&PropSpec{
		ID:          "C05",
		Technique:   "SSA value-flow and control dependence of TextEdit constructions, path-sensitive interprocedural slicing of padding counts back to the configured indent and minimum column",
		Explanation: "T13: every formatter edit stays on one line, posting rewrites span [0, LineUTF16Len(line)], trim edits start at UTF16Len(trimmed) and skip exactly the lines keyed by the expression that keys posting rewrites (no two edits overlap). units: edit characters are UTF-16 quantities, alignment arithmetic never mixes units. T15: nothing is added on re-emission that the lexer does not strip again (comment blank), so the fixed point does not drift. C05-INDENT: the common amount column and the emitted indent both derive from Options.IndentSize, the column honours MinAlignmentColumn. C06-REPEAT: padding counts are non-negative. C05-INDENT: some padding count depends (path-sensitively, across calls) on both Options.IndentSize and Options.MinAlignmentColumn, and an indent string is built from IndentSize alone.",
		NotDecided:  "idempotence as an equation on outputs; that all amounts start in the common column for every input (value-level).",
		Rules:       fmtRules,
	})
	add(&PropSpec{
		ID:          "C07",
		Technique:   "abstract interpretation of the lexer (line accounting, line-start flag, token start) and of the parser (recovery routine identified by its abstract effect; resynchronisation only after consumed input)",
		Explanation: "L-NEWLINE (abstract interpretation of the lexer over byte classes, all calling contexts from Lexer.Next): at every position-advancing site outside the newline scanner the current byte cannot be '\\n', and the line counter / line-start flag are written only by the newline scanner (so no token spans a line break and the token sequence of a line depends only on that line's bytes). L-PROGRESS as in C06. L-NEWLINE is decided from the interpretation itself: an advance may consume a line break only where the current byte is known to be exactly '\\n', and at every token return the number of consumed line breaks equals the number of increments of the line counter and the line-start flag was only set together with a consumed line break (no scanner is exempt by name). L-STEP: the position only moves by the width the decoder reported for the current rune (or by one over a known ASCII byte). L-POS: a token's Pos is a position captured before anything but blanks of the scan was consumed. Recovery routines and the dispatcher are identified by their abstract effect, not by name.",
		NotDecided:  "equality of the two parses outside the damaged entry as values.",
		Rules:       []func(*Ctx){ruleLexer, ruleParser, ruleErrorsRecorded, ruleT4, ruleLexerCursor},
	})
	add(&PropSpec{
		ID:          "C06",
		Technique:   "abstract interpretation of lexer (byte classes, step width, progress) and parser (token kinds, progress), loop and recursion census with termination arguments by role, panic-instruction scan over SSA reachable from handlers, bounds and repeat-count clamps by slicing",
		Explanation: "L-PROGRESS (byte-class abstract interpretation of the lexer, all calling contexts): every non-EOF token return happens after the position strictly increased since Next was entered, and EOF is returned only at the end of input - hence tokens never overlap, stay inside the input and tokenisation terminates with EOF for every byte string. P-PROGRESS (token-kind abstract interpretation of the parser): every path back to the head of a token loop consumes a token. LOOP-CENSUS: every other for-loop modifies a variable of its condition on every path (worklist/fixpoint loops admitted by name with their argument). REC-CENSUS: the only recursion is the guarded include recursion and the structural settings recursion. D-EXPONENT: a parsed quantity passes an Exponent() bound before it enters the tree. C06-REPEAT: Repeat counts are non-negative and configuration integers that reach them are clamped. C06-PANIC: no explicit panic, unchecked assertion or non-constant integer division on a request path. C06-BOUNDS: byte offsets converted from client columns are clamped before slicing. U-XSTR: a byte position obtained by ranging over one string is never used to index or slice a different string. N-NIL: every dereference of an optional part of a posting (pointer-typed field of ast.Posting) is reached only behind a nil test of that field. units (no byte/rune/UTF-16 mix feeding an index). L-STEP: the lexer position only moves by the decoded width of the current rune, so it cannot leave the input (slice bounds) or skip bytes.",
		NotDecided:  "slice/index bounds in general (no sound bound analysis in reach), time proportional to size beyond loop progress (e.g. repeated lookahead), unsigned wrap-around in the token encoder.",
		Rules:       []func(*Ctx){ruleLexer, ruleParser, ruleLoopCensus, ruleRecCensus, ruleDecimalExponent, ruleRepeat, rulePanic, ruleBounds, ruleOptionalDeref, ruleCrossIndex, ruleUnlock, ruleDecimalDivision, ruleUnits("module", nil)},
	})
	add(&PropSpec{
		ID:          "C03",
		Technique:   "table agreement between lexer keyword set and parser switch (AST+types), abstract interpretation of the lexer over byte classes and of the parser over token kinds (progress, resynchronisation)",
		Explanation: "Only the narrow structural part of this property is decided. T7: every directive keyword the parser has a case for is in the lexer's keyword set, and every directive the property names (account, commodity, include, P, Y, D) has a parser case. T8: every token kind the lexer can emit is tested for by some parser branch. D-EXACT at the point quantities are built (decimal.NewFromString only). L-PROGRESS/P-PROGRESS/L-NEWLINE: tokens cover the input left to right, never span a line break and every loop of lexer and parser consumes input (no supported journal can hang or shift line numbers). S-WINDOW: no window x[lo:hi] of a slice kept in a struct field is handed on without a capacity limit (an append to it would overwrite the following window: postings of one transaction replaced by those of the next).",
		NotDecided:  "MOST OF THE PROPERTY: that the context-free, first-character lexer heuristics classify every spelling of every supported construct correctly (upper-case or digit-leading descriptions, colons in descriptions, CRLF line ends, spaces before the first colon of a virtual account), number-notation normalisation, and the equality of the extracted structure with the written one. These are value semantics of heuristics; no structural fact in reach separates a right heuristic from a wrong one (two known counter-examples on today's tree - CRLF input and an all-caps description yield syntax errors - are invisible to every rule here).",
		Rules:       []func(*Ctx){ruleT7T8, ruleDecimalExact("internal/parser"), ruleNumberSign, ruleLexer, ruleParser, ruleSliceWindow, ruleErrorsRecorded, ruleParserState},
	})
	return m
}

// ruleDeterminismState: rules shared with C12/C11/C01 that make responses independent of the edit history.
func ruleDeterminismState(c *Ctx) {
	ruleT1T2(c)
	ruleC12Clear(c)
	ruleC12Refresh(c)
	ruleC12Pair(c)
	ruleC12Update(c)
	ruleFileOrderGrowth(c)
	ruleLoaderCache(c)
	if h, _, store, docField := changeHandler(c.P); h != nil {
		ruleCacheFresh(c, h, store, docField)
	}
}

