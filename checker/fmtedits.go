package main

// Formatter edit rules on SSA (T13, C04-ERRS, C05-INDENT).
//
// Every place where the formatter package builds a protocol.TextEdit is found in SSA form (the values
// stored into Range.Start/End.Line/Character and NewText); values that are parameters of a helper are
// replaced by the arguments of the helper's call sites.  All conditions are evaluated by data flow and
// control dependence, so the rules do not depend on how the code is split into functions or on whether
// a guard is written as `if c { continue }` or as `if !c { ... }`.

import (
	"fmt"
	"go/constant"
	"go/token"
	"go/types"
	"os"
	"sort"
	"strings"

	"golang.org/x/tools/go/ssa"
)

type ctrlCond struct {
	Cond  ssa.Value
	Taken bool // reaching the block requires the condition to be true
}

// controlCondsPol: like controlConds, with the required outcome; `!c` is unfolded.
func controlCondsPol(b *ssa.BasicBlock) []ctrlCond {
	var out []ctrlCond
	for d := b.Idom(); d != nil; d = d.Idom() {
		if len(d.Instrs) == 0 {
			continue
		}
		ifi, ok := d.Instrs[len(d.Instrs)-1].(*ssa.If)
		if !ok {
			continue
		}
		s0 := branchLeadsTo(d, 0, b)
		s1 := branchLeadsTo(d, 1, b)
		if s0 == s1 {
			continue
		}
		// the exit test of a loop does not control what follows the loop (the loop is left eventually): the edge
		// towards b leaves the loop.  (A block inside the loop that ends in a return does not reach d either, but
		// the edge towards it stays inside the loop.)
		if inCycle(d) && !reachesBlock(b, d) {
			lead := d.Succs[1]
			if s0 {
				lead = d.Succs[0]
			}
			if !reachesBlock(lead, d) {
				continue
			}
		}
		cond, taken := ifi.Cond, s0
		for {
			if u, ok := cond.(*ssa.UnOp); ok && u.Op == token.NOT {
				cond, taken = u.X, !taken
				continue
			}
			break
		}
		out = append(out, ctrlCond{cond, taken})
	}
	return out
}

// controlDeps: the branch conditions the block is control dependent on in the classical sense (Ferrante et
// al.): an edge d->s such that b post-dominates s (or is s) but does not strictly post-dominate d, transitively.
// Unlike controlCondsPol (conditions that are *necessary* to reach b) this also reports the tests of a
// short-circuit condition for its join block: `if a && b { X }; Y` - Y's else-join depends on a and on b.
func controlDeps(b *ssa.BasicBlock) []ctrlCond {
	f := b.Parent()
	n := len(f.Blocks)
	// post-dominator sets with a virtual exit (index n)
	full := func() []bool {
		s := make([]bool, n+1)
		for i := range s {
			s[i] = true
		}
		return s
	}
	pdom := make([][]bool, n+1)
	for i := 0; i <= n; i++ {
		pdom[i] = full()
	}
	pdom[n] = make([]bool, n+1)
	pdom[n][n] = true
	succs := func(i int) []int {
		if i == n {
			return nil
		}
		blk := f.Blocks[i]
		if len(blk.Succs) == 0 {
			return []int{n}
		}
		var out []int
		for _, s := range blk.Succs {
			out = append(out, s.Index)
		}
		return out
	}
	for changed := true; changed; {
		changed = false
		for i := n - 1; i >= 0; i-- {
			nw := full()
			for _, s := range succs(i) {
				for k := range nw {
					nw[k] = nw[k] && pdom[s][k]
				}
			}
			nw[i] = true
			for k := range nw {
				if nw[k] != pdom[i][k] {
					changed = true
				}
			}
			pdom[i] = nw
		}
	}
	seen := map[*ssa.BasicBlock]bool{}
	var out []ctrlCond
	var visit func(x *ssa.BasicBlock)
	visit = func(x *ssa.BasicBlock) {
		if seen[x] {
			return
		}
		seen[x] = true
		for _, d := range f.Blocks {
			if len(d.Instrs) == 0 {
				continue
			}
			ifi, ok := d.Instrs[len(d.Instrs)-1].(*ssa.If)
			if !ok || len(d.Succs) != 2 {
				continue
			}
			for i, s := range d.Succs {
				// x post-dominates s (or is s) and does not strictly post-dominate d
				if (s == x || pdom[s.Index][x.Index]) && !(d != x && pdom[d.Index][x.Index]) {
					cond, taken := ifi.Cond, i == 0
					for {
						if u, ok := cond.(*ssa.UnOp); ok && u.Op == token.NOT {
							cond, taken = u.X, !taken
							continue
						}
						break
					}
					out = append(out, ctrlCond{cond, taken})
					visit(d)
				}
			}
		}
	}
	visit(b)
	return out
}

type editInst struct {
	fn   *ssa.Function
	pos  token.Pos
	vals map[string]ssa.Value
	ctx  []*ssa.BasicBlock // block of the construction, then the blocks of the call sites the values came from
}

func (e *editInst) where(p *Prog) string { return funcName(e.fn) }

// textEditInstances finds the TextEdit constructions of a package.
func textEditInstances(c *Ctx, pkgRel string) []*editInst {
	spk := c.P.SSAPkg(pkgRel)
	g := c.P.CallGraph("vta")
	var out []*editInst
	want := []string{".Range.Start.Line", ".Range.Start.Character", ".Range.End.Line", ".Range.End.Character", ".NewText"}
	for _, f := range c.P.ModuleFuncs() {
		top := f
		for top.Parent() != nil {
			top = top.Parent()
		}
		if top.Pkg != spk {
			continue
		}
		var roots []ssa.Value
		for _, b := range f.Blocks {
			for _, ins := range b.Instrs {
				switch x := ins.(type) {
				case *ssa.Alloc:
					if typeHasSuffix(x.Type(), "*go.lsp.dev/protocol.TextEdit") {
						roots = append(roots, x)
					}
				case *ssa.IndexAddr:
					if typeHasSuffix(x.Type(), "*go.lsp.dev/protocol.TextEdit") {
						if _, local := x.X.(*ssa.Alloc); local {
							roots = append(roots, x)
						}
					}
				}
			}
		}
		for _, r := range roots {
			stores := map[string][]ssa.Value{}
			collectFieldStores(r, "", stores, 0)
			vals := map[string]ssa.Value{}
			complete := true
			for _, w := range want {
				if len(stores[w]) != 1 {
					complete = false
					break
				}
				vals[w] = stores[w][0]
			}
			if !complete {
				continue // a copy of an edit (range variable, zero value), not a construction
			}
			blk := r.(ssa.Instruction).Block()
			// parameters of a helper: one instance per call site
			hasParam := false
			for _, v := range vals {
				if p, ok := stripConv(v).(*ssa.Parameter); ok && p.Parent() == f {
					hasParam = true
				}
			}
			n := g.Nodes[f]
			if !hasParam || n == nil || len(n.In) == 0 {
				out = append(out, &editInst{fn: f, pos: r.Pos(), vals: vals, ctx: []*ssa.BasicBlock{blk}})
				continue
			}
			for _, e := range n.In {
				if e.Site == nil || e.Site.Common().StaticCallee() != f {
					continue
				}
				nv := map[string]ssa.Value{}
				for k, v := range vals {
					nv[k] = v
					if p, ok := stripConv(v).(*ssa.Parameter); ok && p.Parent() == f {
						for i, q := range f.Params {
							if q == p && i < len(e.Site.Common().Args) {
								nv[k] = e.Site.Common().Args[i]
							}
						}
					}
				}
				out = append(out, &editInst{fn: e.Caller.Func, pos: e.Site.Pos(), vals: nv, ctx: []*ssa.BasicBlock{blk, e.Site.Block()}})
			}
		}
	}
	// a literal that is first built in a local and then copied into the slice handed to append appears twice
	var uniq []*editInst
	seenI := map[string]*editInst{}
	for _, e := range out {
		k := funcName(e.fn)
		for _, w := range want {
			k += fmt.Sprintf("|%p", e.vals[w])
		}
		if prev, dup := seenI[k]; dup {
			if prev.pos == token.NoPos {
				prev.pos = e.pos
			}
			continue
		}
		seenI[k] = e
		uniq = append(uniq, e)
	}
	sort.SliceStable(uniq, func(i, j int) bool { return uniq[i].pos < uniq[j].pos })
	return uniq
}

// conds: the control conditions of an instance: those of its construction and those of the call sites on the
// way there (one more level of callers of the constructing function is added when it has a single caller).
func (e *editInst) conds(g interface {
	callersOf(*ssa.Function) []ssa.CallInstruction
}) []ctrlCond {
	var out []ctrlCond
	seen := map[*ssa.BasicBlock]bool{}
	var add func(b *ssa.BasicBlock, depth int)
	add = func(b *ssa.BasicBlock, depth int) {
		if b == nil || seen[b] {
			return
		}
		seen[b] = true
		out = append(out, controlCondsPol(b)...)
		if depth < 2 {
			if sites := g.callersOf(b.Parent()); len(sites) == 1 {
				add(sites[0].Block(), depth+1)
			}
		}
	}
	for _, b := range e.ctx {
		add(b, 0)
	}
	return out
}

type cgView struct{ c *Ctx }

func (v cgView) callersOf(f *ssa.Function) []ssa.CallInstruction {
	g := v.c.P.CallGraph("vta")
	var out []ssa.CallInstruction
	collect := func(target *ssa.Function) {
		n := g.Nodes[target]
		if n == nil {
			return
		}
		for _, e := range n.In {
			if e.Site != nil && e.Site.Common().StaticCallee() == target {
				if par := e.Site.Parent(); par != nil && par.Synthetic != "" && par.Synthetic != "range-over-func yield" {
					continue // wrappers and thunks generated by the compiler front end: not a call written in the code
				}
				if _, isGo := e.Site.(*ssa.Go); !isGo {
					out = append(out, e.Site)
				}
			}
		}
	}
	collect(f)
	if f.TypeParams().Len() > 0 && len(f.TypeArgs()) == 0 {
		// a generic function is analysed in its uninstantiated body; it is called through its instances
		var insts []*ssa.Function
		for h := range g.Nodes {
			if h != nil && h != f && h.Origin() == f {
				insts = append(insts, h)
			}
		}
		sort.Slice(insts, func(i, j int) bool { return insts[i].String() < insts[j].String() })
		for _, h := range insts {
			collect(h)
		}
	}
	return out
}

// postingFieldDesc: v is `<posting>.<fields> (- k)`, possibly converted or passed through a parameter with a
// single call site: "Range.Start.Line-1".  "" if v is not of that form.
func postingFieldDesc(cg cgView, v ssa.Value, depth int) string {
	if depth > 4 {
		return ""
	}
	v = stripConv(v)
	switch x := v.(type) {
	case *ssa.BinOp:
		if k, ok := x.Y.(*ssa.Const); ok && k.Value != nil && (x.Op == token.SUB || x.Op == token.ADD) {
			if d := postingFieldDesc(cg, x.X, depth+1); d != "" {
				return d + x.Op.String() + k.Value.ExactString()
			}
		}
	case *ssa.UnOp:
		if x.Op == token.MUL {
			var parts []string
			a := x.X
			for hops := 0; hops < 8; hops++ {
				if ld, ok := a.(*ssa.UnOp); ok && ld.Op == token.MUL {
					a = ld.X // a pointer-typed part of the posting (Amount, Cost, ...): continue below it
					continue
				}
				fa, ok := a.(*ssa.FieldAddr)
				if !ok {
					break
				}
				pt := fa.X.Type().Underlying().(*types.Pointer)
				st := pt.Elem().Underlying().(*types.Struct)
				parts = append([]string{st.Field(fa.Field).Name()}, parts...)
				if typeHasSuffix(pt.Elem(), "/ast.Posting") {
					return strings.Join(parts, ".")
				}
				a = fa.X
			}
		}
	case *ssa.Field:
		// field of a loaded struct value
		var parts []string
		var cur ssa.Value = x
		for {
			f, ok := cur.(*ssa.Field)
			if !ok {
				break
			}
			st := f.X.Type().Underlying().(*types.Struct)
			parts = append([]string{st.Field(f.Field).Name()}, parts...)
			if typeHasSuffix(f.X.Type(), "/ast.Posting") {
				return strings.Join(parts, ".")
			}
			cur = f.X
		}
		if ld, ok := cur.(*ssa.UnOp); ok && ld.Op == token.MUL {
			if d := postingFieldDesc(cg, ld, depth+1); d != "" {
				return d + "." + strings.Join(parts, ".")
			}
		}
	case *ssa.Parameter:
		if sites := cg.callersOf(x.Parent()); len(sites) == 1 {
			for i, q := range x.Parent().Params {
				if q == x && i < len(sites[0].Common().Args) {
					return postingFieldDesc(cg, sites[0].Common().Args[i], depth+1)
				}
			}
		}
	case *ssa.Call:
		// an accessor helper: `func lineOf(p *ast.Posting) int { return p.Range.Start.Line - 1 }`
		if cal := x.Call.StaticCallee(); cal != nil && cal.Blocks != nil && inModule(cal) && cal.Signature.Results().Len() == 1 {
			d, n := "", 0
			for _, b := range cal.Blocks {
				for _, ins := range b.Instrs {
					if r, ok := ins.(*ssa.Return); ok && len(r.Results) == 1 {
						de := postingFieldDesc(cg, unspillResult(r.Results[0], b), depth+1)
						if n > 0 && de != d {
							return ""
						}
						d = de
						n++
					}
				}
			}
			return d
		}
	case *ssa.Phi:
		d := ""
		for i, e := range x.Edges {
			de := postingFieldDesc(cg, e, depth+1)
			if i > 0 && de != d {
				return ""
			}
			d = de
		}
		return d
	}
	return ""
}

// mapOrigins: where a map value comes from: the make instruction, a field it is loaded from ("field:Name"),
// followed through parameters to the call sites.
func mapOrigins(cg cgView, v ssa.Value, depth int, out map[string]bool) {
	if depth > 4 || v == nil {
		return
	}
	v = stripConv(v)
	switch x := v.(type) {
	case *ssa.MakeMap:
		out[fmt.Sprintf("make@%d", x.Pos())] = true
	case *ssa.Parameter:
		out[fmt.Sprintf("param:%s", x.Name())] = true
		for _, s := range cg.callersOf(x.Parent()) {
			for i, q := range x.Parent().Params {
				if q == x && i < len(s.Common().Args) {
					mapOrigins(cg, s.Common().Args[i], depth+1, out)
				}
			}
		}
	case *ssa.Phi:
		for _, e := range x.Edges {
			mapOrigins(cg, e, depth+1, out)
		}
	case *ssa.UnOp:
		if x.Op == token.MUL {
			if fa, ok := x.X.(*ssa.FieldAddr); ok {
				st := fa.X.Type().Underlying().(*types.Pointer).Elem().Underlying().(*types.Struct)
				out["field:"+st.Field(fa.Field).Name()] = true
				return
			}
			if al, ok := x.X.(*ssa.Alloc); ok {
				// a local variable holding the map
				for _, r := range *al.Referrers() {
					if st, ok := r.(*ssa.Store); ok && st.Addr == al {
						mapOrigins(cg, st.Val, depth+1, out)
					}
				}
			}
			if fv, ok := x.X.(*ssa.FreeVar); ok {
				// a variable of the enclosing function captured by a closure
				if cell := freeVarBinding(fv); cell != nil {
					if refs := cell.Referrers(); refs != nil {
						for _, r := range *refs {
							if st, ok := r.(*ssa.Store); ok && st.Addr == cell {
								mapOrigins(cg, st.Val, depth+1, out)
							}
						}
					}
				}
			}
		}
	case *ssa.Field:
		st := x.X.Type().Underlying().(*types.Struct)
		out["field:"+st.Field(x.Field).Name()] = true
	case *ssa.Call:
		out[fmt.Sprintf("call@%d", x.Pos())] = true
		// a helper that builds and returns the map
		if cal := x.Call.StaticCallee(); cal != nil && cal.Blocks != nil && inModule(cal) {
			for _, b := range cal.Blocks {
				for _, ins := range b.Instrs {
					if r, ok := ins.(*ssa.Return); ok {
						for _, rv := range r.Results {
							if _, isMap := rv.Type().Underlying().(*types.Map); isMap {
								mapOrigins(cg, unspillResult(rv, b), depth+1, out)
							}
						}
					}
				}
			}
		}
	}
}

// memberTestT: a membership test `Index in X`.
type memberTestT struct{ X, Index ssa.Value }

// setMembership: cond is a membership test in a set-like map: `m[k]` of a map[K]bool, or the ok of `_, ok := m[k]`
// - written in place or as the single result of a boolean helper (`set.has(k)`), the helper's parameters being
// replaced by the arguments of the call.
func setMembership(cond ssa.Value) (*memberTestT, bool) {
	if lk, ok := cond.(*ssa.Lookup); ok && !lk.CommaOk {
		return &memberTestT{lk.X, lk.Index}, true
	}
	if ex, ok := cond.(*ssa.Extract); ok && ex.Index == 1 {
		if lk, ok := ex.Tuple.(*ssa.Lookup); ok && lk.CommaOk {
			return &memberTestT{lk.X, lk.Index}, true
		}
	}
	if call, ok := cond.(*ssa.Call); ok {
		h := call.Call.StaticCallee()
		if h == nil || h.Blocks == nil || !inModule(h) || h.Signature.Results().Len() != 1 {
			return nil, false
		}
		var res *memberTestT
		n := 0
		for _, b := range h.Blocks {
			r, ok := b.Instrs[len(b.Instrs)-1].(*ssa.Return)
			if !ok {
				continue
			}
			n++
			res, _ = setMembership(unspillResult(r.Results[0], b))
		}
		if n != 1 || res == nil {
			return nil, false
		}
		bind := func(v ssa.Value) ssa.Value {
			if p, ok := stripConv(v).(*ssa.Parameter); ok && p.Parent() == h {
				for i, q := range h.Params {
					if q == p && i < len(call.Call.Args) {
						return call.Call.Args[i]
					}
				}
			}
			return v
		}
		return &memberTestT{bind(res.X), bind(res.Index)}, true
	}
	return nil, false
}

// isSetElem: the element type of a set-like map (bool or an empty struct).
func isSetElem(t types.Type) bool {
	if b, ok := t.Underlying().(*types.Basic); ok && b.Kind() == types.Bool {
		return true
	}
	st, ok := t.Underlying().(*types.Struct)
	return ok && st.NumFields() == 0
}

func sameValueOrDesc(cg cgView, a, b ssa.Value) bool {
	if stripConv(a) == stripConv(b) {
		return true
	}
	da, db := postingFieldDesc(cg, a, 0), postingFieldDesc(cg, b, 0)
	return da != "" && da == db
}

func constString(v ssa.Value) (string, bool) {
	if k, ok := v.(*ssa.Const); ok && k.Value != nil && k.Value.Kind() == constant.String {
		return constant.StringVal(k.Value), true
	}
	return "", false
}

func ruleFormatterEdits(c *Ctx) {
	cg := cgView{c}
	insts := textEditInstances(c, "internal/formatter")
	c.census("T13", "TextEdit constructions in the formatter (per call site of a constructor helper)", len(insts), 2)
	var rewrites, trims []*editInst
	for _, e := range insts {
		fname := e.where(c.P)
		sl, el := e.vals[".Range.Start.Line"], e.vals[".Range.End.Line"]
		c.check(stripConv(sl) == stripConv(el), "T13", fname, "edit range stays on one line", e.pos,
			"Start.Line and End.Line are the same value", "a formatter edit spans lines (Start.Line and End.Line are different values): edits of neighbouring lines can overlap")
		endsAtEOL := sliceHasCall(backSlice(e.vals[".Range.End.Character"]), func(cal *ssa.Function, _ *ssa.Call) bool {
			return strings.HasSuffix(cal.Name(), "LineUTF16Len")
		})
		c.check(endsAtEOL, "T13", fname, "edit range ends at the line's UTF-16 length", e.pos, "End.Character = LineUTF16Len(line)", "the edit does not end at the UTF-16 length of its line")
		if s, ok := constString(e.vals[".NewText"]); ok && s == "" {
			trims = append(trims, e)
		} else {
			rewrites = append(rewrites, e)
		}
	}
	c.check(len(rewrites) >= 1 && len(trims) >= 1, "T13", "formatter", "two edit shapes: rewrite a posting line, delete trailing blanks", token.NoPos,
		fmt.Sprintf("%d constructions with computed text and %d with constant empty text", len(rewrites), len(trims)),
		fmt.Sprintf("the formatter does not build both kinds of edits (computed text: %d, empty text: %d)", len(rewrites), len(trims)))
	// rewrites: only on posting lines, whole line
	rewriteDescs := map[string]bool{}
	for _, e := range rewrites {
		fname := e.where(c.P)
		d := postingFieldDesc(cg, e.vals[".Range.Start.Line"], 0)
		c.check(d != "", "T13", fname, "text is rewritten on posting lines only", e.pos,
			"the line of the rewrite edit is a posting's own start line ("+d+")",
			"an edit with computed text targets a line that is not derived from a posting's range: text outside posting lines can be changed by more than the loss of trailing blanks")
		if d != "" {
			rewriteDescs[d] = true
		}
		k, isConst := stripConv(e.vals[".Range.Start.Character"]).(*ssa.Const)
		zero := isConst && k.Value != nil && k.Value.ExactString() == "0"
		c.check(zero, "T13", fname, "posting rewrite covers the whole line", e.pos, "Start.Character = 0", "posting rewrite does not start at column 0")
	}
	// the set of lines excluded from trimming: maps updated with a key of the same description
	marked := map[string]bool{}
	markDescs := map[string]bool{}
	for _, f := range c.P.ModuleFuncs() {
		if f.Pkg != c.P.SSAPkg("internal/formatter") && (f.Parent() == nil || f.Parent().Pkg != c.P.SSAPkg("internal/formatter")) {
			continue
		}
		for _, b := range f.Blocks {
			for _, ins := range b.Instrs {
				mu, ok := ins.(*ssa.MapUpdate)
				if !ok {
					continue
				}
				mt, ok := mu.Map.Type().Underlying().(*types.Map)
				if !ok || types.TypeString(mt.Key(), nil) != "int" || !isSetElem(mt.Elem()) {
					continue
				}
				if d := postingFieldDesc(cg, mu.Key, 0); d != "" {
					markDescs[d] = true
					if rewriteDescs[d] {
						mapOrigins(cg, mu.Map, 0, marked)
						// every posting line is exempt from trimming, also one the parser reported an error on (it is
						// not rewritten, and its trailing blanks may be part of what the parser did not understand)
						onErr := false
						for _, cc := range (&editInst{ctx: []*ssa.BasicBlock{b}}).conds(cg) {
							lk, ok := setMembership(cc.Cond)
							if !ok {
								continue
							}
							or := map[string]bool{}
							mapOrigins(cg, lk.X, 0, or)
							for o := range or {
								if strings.HasPrefix(o, "field:") && errorLinesField(c, strings.TrimPrefix(o, "field:")) {
									onErr = true
								}
							}
						}
						c.check(!onErr, "T13", funcName(f), "posting lines with a syntax error stay exempt from trimming", mu.Pos(),
							"the line of a posting enters the set of lines the trim pass skips whether or not the parser reported an error on it",
							"a posting line enters the set of lines skipped by the trailing-blank pass only when the parser reported no error on it: a damaged posting line is neither rewritten nor exempt, so its trailing blanks - possibly the very text the parser rejected (a tab after the amount) - are deleted, the error disappears and the transaction changes")
					}
				}
			}
		}
	}
	var rd, md []string
	for d := range rewriteDescs {
		rd = append(rd, d)
	}
	for d := range markDescs {
		md = append(md, d)
	}
	sort.Strings(rd)
	sort.Strings(md)
	c.check(len(rd) > 0 && strings.Join(rd, ",") == strings.Join(md, ","), "T13", "formatter", "trim edits skip exactly the rewritten posting lines", token.NoPos,
		"posting rewrites and the set of lines skipped by trimming are both keyed by posting."+strings.Join(rd, ","),
		fmt.Sprintf("posting rewrites are keyed by posting.%v but the lines excluded from trimming by posting.%v: a posting line can receive two overlapping edits", rd, md))
	for _, e := range trims {
		fname := e.where(c.P)
		// start = UTF16Len(TrimRight(line, blanks))
		sc := backSlice(e.vals[".Range.Start.Character"])
		u16 := sliceHasCall(sc, func(cal *ssa.Function, _ *ssa.Call) bool { return strings.HasSuffix(cal.Name(), "UTF16Len") })
		c.check(u16, "T13", fname, "trim starts at the UTF-16 length of the trimmed text", e.pos, "Start.Character = UTF16Len(trimmed)", "the trim edit's start is not the UTF-16 length of the text to keep")
		trimOK := sliceHasCall(sc, func(cal *ssa.Function, call *ssa.Call) bool {
			if funcName(cal) != "strings.TrimRight" || len(call.Common().Args) != 2 {
				return false
			}
			s, ok := constString(call.Common().Args[1])
			return ok && s != "" && strings.Trim(s, " \t") == ""
		})
		c.check(trimOK, "T13", fname, "only blanks are trimmed", e.pos, "strings.TrimRight(line, \" \\t\")", "the text kept by the trim edit is not 'the line without trailing spaces/tabs'")
		// control dependence: built only when the line is not in the set of posting lines
		skip := false
		for _, cc := range e.conds(cg) {
			lk, ok := setMembership(cc.Cond)
			if !ok || cc.Taken {
				continue
			}
			if !sameValueOrDesc(cg, lk.Index, e.vals[".Range.Start.Line"]) {
				continue
			}
			or := map[string]bool{}
			mapOrigins(cg, lk.X, 0, or)
			for o := range or {
				if marked[o] {
					skip = true
				}
			}
		}
		c.check(skip, "T13", fname, "trim loop consults the set of posting lines", e.pos,
			"the trim edit is only built for lines that are not in the set filled with the posting lines", "the trim loop does not skip posting lines")
	}
	// ---- C04-ERRS: a posting line that carries a syntax error is not rewritten
	for _, e := range rewrites {
		fname := e.where(c.P)
		errSkip := false
		for _, cc := range e.conds(cg) {
			lk, ok := setMembership(cc.Cond)
			if !ok || cc.Taken {
				continue
			}
			if !sameValueOrDesc(cg, lk.Index, e.vals[".Range.Start.Line"]) {
				continue
			}
			or := map[string]bool{}
			mapOrigins(cg, lk.X, 0, or)
			for o := range or {
				if strings.HasPrefix(o, "field:") && errorLinesField(c, strings.TrimPrefix(o, "field:")) {
					errSkip = true
				}
			}
		}
		c.check(errSkip, "C04-ERRS", fname, "posting lines with a syntax error are not rewritten", e.pos,
			"the rewrite edit is only built when the line is not among the lines the parser reported an error on",
			"posting lines are rebuilt from the syntax tree even where the parser reported an error: text the parser did not understand (a dangling '@', a lone '$', trailing words) is deleted")
	}
	ruleFormatHandlerErrors(c)
	ruleIndent(c)
}

// errorLinesField: the named field is the map[int]bool of formatter.Options that the formatting handler fills
// from the parser's errors (role; the exported name is only a fallback).
func errorLinesField(c *Ctx, name string) bool {
	pk := c.P.ByRel["internal/formatter"]
	obj := pk.Types.Scope().Lookup("Options")
	if obj == nil {
		return name == "ErrorLines"
	}
	st, ok := obj.Type().Underlying().(*types.Struct)
	if !ok {
		return false
	}
	for i := 0; i < st.NumFields(); i++ {
		f := st.Field(i)
		if m, ok := f.Type().Underlying().(*types.Map); ok && types.TypeString(m.Key(), nil) == "int" && types.TypeString(m.Elem(), nil) == "bool" {
			return f.Name() == name
		}
	}
	return false
}

// ruleFormatHandlerErrors (C04-ERRS, server side): the formatting handler hands the parser's errors on.
func ruleFormatHandlerErrors(c *Ctx) {
	var fmtH *ssa.Function
	if fd := c.P.handlerByParam("protocol.DocumentFormattingParams"); fd != nil {
		fmtH = c.P.ssaOf(fd)
	}
	if fmtH == nil {
		c.undecided("C04-ERRS", "server.Server.Format", "anchor", token.NoPos, "formatting handler not found")
		return
	}
	okFlow := false
	filtered := ""
	ci := buildConc(c)
	reach := Reach(ci.g, []*ssa.Function{fmtH}, true)
	isParseErrs := func(sl map[ssa.Value]bool) bool {
		for v := range sl {
			if ex, ok := v.(*ssa.Extract); ok && ex.Index == 1 {
				if call, ok := ex.Tuple.(*ssa.Call); ok && call.Common().StaticCallee() != nil && calleeNameIs(call.Common().StaticCallee(), "parser.Parse") {
					return true
				}
			}
		}
		return false
	}
	for _, f := range c.P.ModuleFuncs() {
		if !reach[f] {
			continue
		}
		for _, b := range f.Blocks {
			for _, ins := range b.Instrs {
				st, ok := ins.(*ssa.Store)
				if !ok {
					continue
				}
				fa, ok := st.Addr.(*ssa.FieldAddr)
				if !ok || !typeHasSuffix(fa.X.Type(), "formatter.Options") {
					continue
				}
				fst := fa.X.Type().Underlying().(*types.Pointer).Elem().Underlying().(*types.Struct)
				if !errorLinesField(c, fst.Field(fa.Field).Name()) {
					continue
				}
				// the stored map (followed through parameters and helper results) is filled with keys that derive
				// from the second result of parser.Parse
				sl := sliceUp(ci, st.Val, f)
				for _, g := range c.P.ModuleFuncs() {
					if !reach[g] {
						continue
					}
					for _, b2 := range g.Blocks {
						for _, i2 := range b2.Instrs {
							if mu, ok := i2.(*ssa.MapUpdate); ok && sl[mu.Map] {
								ks := sliceUp(ci, mu.Key, g)
								if isParseErrs(ks) {
									okFlow = true
								}
								// ... from the parser's own list, not from a copy that was filtered, capped or de-duplicated
								// on the way (a re-slice of, or an append that builds, a list of parse errors)
								for v := range ks {
									isErrList := func(t types.Type) bool {
										sl, ok := t.Underlying().(*types.Slice)
										return ok && typeHasSuffix(sl.Elem(), "parser.ParseError")
									}
									switch x := v.(type) {
									case *ssa.Slice:
										if isErrList(x.Type()) {
											filtered = c.P.pos(x.Pos())
										}
									case *ssa.Call:
										if bi, ok := x.Call.Value.(*ssa.Builtin); ok && bi.Name() == "append" && isErrList(x.Type()) && !inParserPkg(x.Parent()) {
											filtered = c.P.pos(x.Pos())
										}
									}
								}
							}
						}
					}
				}
			}
		}
	}
	c.check(filtered == "", "C04-ERRS", funcName(fmtH), "every parse error reaches the formatter", fmtH.Pos(),
		"the error lines are taken from the parser's own error list",
		"the lines the formatter must not rewrite are taken from a filtered copy of the parser's errors (built at "+filtered+"): an error that the filter drops (a 'cascade', a duplicate message) leaves its line unprotected, and the formatter rebuilds it from the tree and deletes what the parser did not understand")
	c.check(okFlow, "C04-ERRS", funcName(fmtH), "parse errors reach the formatter", fmtH.Pos(),
		"the options' set of error lines is filled from the errors returned by parser.Parse for the formatted text",
		"the formatting handler discards the parser's errors: the formatter cannot know which lines it must not rewrite")
}

// ruleIndent (C05-INDENT): the padding in front of the amount depends on the configured indent and on the
// minimum column, and the indent that is emitted is the configured number of blanks.
func ruleIndent(c *Ctx) {
	ci := buildConc(c)
	fpk := c.P.SSAPkg("internal/formatter")
	nRep, nPad, nIndent := 0, 0, 0
	for _, f := range c.P.ModuleFuncs() {
		top := f
		for top.Parent() != nil {
			top = top.Parent()
		}
		if top.Pkg != fpk {
			continue
		}
		for _, call := range findCalls(f, func(cal *ssa.Function) bool { return funcName(cal) == "strings.Repeat" }) {
			nRep++
			sl := sliceUp(ci, call.Common().Args[1], f)
			ind, minc := sliceHasFieldRead(sl, "IndentSize"), sliceHasFieldRead(sl, "MinAlignmentColumn")
			if os.Getenv("HLDEBUG") == "indent" {
				fmt.Fprintf(os.Stderr, "INDENT %s ind=%v minc=%v\n", c.P.pos(call.Pos()), ind, minc)
				for v := range sl {
					if fa, ok := v.(*ssa.FieldAddr); ok {
						fmt.Fprintf(os.Stderr, "   %s %s in %s\n", fa.Name(), fieldVarOfAddr(fa).Name(), fa.Parent())
					}
				}
			}
			if ind && minc {
				nPad++
			}
			if ind && !minc {
				nIndent++
			}
		}
	}
	// third clause: the column that is measured against the configured minimum column is the column of the longest
	// account behind the CONFIGURED indent - whatever is compared or maximised with Options.MinAlignmentColumn depends
	// on Options.IndentSize too (C19-m28: a helper that takes the column from the default-indent variant).
	nCol := 0
	isMinLoad := func(v ssa.Value) bool {
		v = stripConv(v)
		if u, ok := v.(*ssa.UnOp); ok && u.Op == token.MUL {
			return fieldAddrNamed(u.X, "MinAlignmentColumn")
		}
		if fl, ok := v.(*ssa.Field); ok {
			if st, ok := fl.X.Type().Underlying().(*types.Struct); ok && st.Field(fl.Field).Name() == "MinAlignmentColumn" {
				return true
			}
		}
		return false
	}
	for _, f := range c.P.ModuleFuncs() {
		top := f
		for top.Parent() != nil {
			top = top.Parent()
		}
		if top.Pkg != fpk {
			continue
		}
		for _, b := range f.Blocks {
			for _, ins := range b.Instrs {
				var ops []ssa.Value
				switch x := ins.(type) {
				case *ssa.BinOp:
					switch x.Op {
					case token.LSS, token.GTR, token.LEQ, token.GEQ:
						ops = []ssa.Value{x.X, x.Y}
					}
				case *ssa.Call:
					if bi, ok := x.Call.Value.(*ssa.Builtin); ok && (bi.Name() == "max" || bi.Name() == "min") {
						ops = x.Call.Args
					}
				}
				if len(ops) < 2 {
					continue
				}
				hasMin := false
				for _, o := range ops {
					if isMinLoad(o) {
						hasMin = true
					}
				}
				if !hasMin {
					continue
				}
				for _, o := range ops {
					if isMinLoad(o) {
						continue
					}
					if _, ok := stripConv(o).(*ssa.Const); ok {
						continue
					}
					nCol++
					sl := sliceUp(ci, o, f)
					c.check(sliceHasFieldRead(sl, "IndentSize"), "C05-INDENT", funcName(f), "the column measured against the minimum column depends on the configured indent", ins.Pos(),
						"the column compared with Options.MinAlignmentColumn depends on Options.IndentSize",
						"the column that is compared or maximised with Options.MinAlignmentColumn does not depend on Options.IndentSize: the alignment column is computed for another indent than the one the posting lines are written with, so a configured indent larger than the default pushes long accounts past the column (amounts no longer aligned) and a smaller one leaves the column too far right - the formatting.indentSize setting only half takes effect")
				}
			}
		}
	}
	c.note("C05-INDENT: %d columns measured against the minimum column", nCol)
	c.census("C05-INDENT", "strings.Repeat calls in the formatter", nRep, 2)
	c.check(nPad >= 1, "C05-INDENT", "formatter", "alignment padding accounts for the configured indent and the minimum column", token.NoPos,
		fmt.Sprintf("%d padding computation(s) depend on both Options.IndentSize and Options.MinAlignmentColumn", nPad),
		"no padding in front of an amount depends on both Options.IndentSize and Options.MinAlignmentColumn: with a larger indent the longest account overruns the column and amounts are no longer aligned, or the minimum column has no influence")
	c.check(nIndent >= 1, "C05-INDENT", "formatter", "emitted indent is Options.IndentSize blanks", token.NoPos, "an indent string is built from Options.IndentSize alone", "no indent string is built from Options.IndentSize")
}

// freeVarBinding: the cell of the enclosing function that a closure's free variable is bound to.
func freeVarBinding(fv *ssa.FreeVar) ssa.Value {
	fn := fv.Parent()
	parent := fn.Parent()
	if parent == nil {
		return nil
	}
	idx := -1
	for i, q := range fn.FreeVars {
		if q == fv {
			idx = i
		}
	}
	for _, b := range parent.Blocks {
		for _, ins := range b.Instrs {
			if mc, ok := ins.(*ssa.MakeClosure); ok && mc.Fn == fn && idx >= 0 && idx < len(mc.Bindings) {
				return mc.Bindings[idx]
			}
		}
	}
	return nil
}

// inCycle: the block can reach itself (it is part of a loop).
func inCycle(b *ssa.BasicBlock) bool {
	seen := map[*ssa.BasicBlock]bool{}
	var w []*ssa.BasicBlock
	w = append(w, b.Succs...)
	for len(w) > 0 {
		x := w[len(w)-1]
		w = w[:len(w)-1]
		if x == b {
			return true
		}
		if seen[x] {
			continue
		}
		seen[x] = true
		w = append(w, x.Succs...)
	}
	return false
}

func inParserPkg(f *ssa.Function) bool {
	for f != nil && f.Parent() != nil {
		f = f.Parent()
	}
	return f != nil && f.Pkg != nil && strings.HasSuffix(f.Pkg.Pkg.Path(), "/internal/parser")
}
