package main

import (
	"fmt"
	"go/constant"
	"go/token"
	"go/types"
	"sort"
	"strings"

	"golang.org/x/tools/go/ssa"
)

// A small prover for linear integer inequalities over SSA values, used by U-WRAP and S-ORDER.
//
// Goal: E >= 0 at a block, E linear over leaves (phi nodes, parameters, len(x), other opaque values).  Facts: the
// comparisons that are necessary conditions of the block (controlCondsPol), len(x) >= 0, and "monotone
// non-negative counters".  Decision: Fourier-Motzkin elimination shows that facts and E <= -1 have no rational
// solution.  When that fails the goal is attacked by induction over a loop-header phi it mentions: the goal with the
// phi (and its siblings) replaced by the value on each incoming edge must be provable at the end of that
// predecessor; on back edges the goal itself may be assumed for the current iteration's values.  Everything the
// prover cannot show is simply "not proven" - callers decide what that means.

type lin struct {
	c int64
	t map[string]int64
}

type linCtx struct {
	leaf map[string]ssa.Value
}

func newLin() lin { return lin{t: map[string]int64{}} }

func (a lin) clone() lin {
	n := lin{c: a.c, t: map[string]int64{}}
	for k, v := range a.t {
		n.t[k] = v
	}
	return n
}

func (a lin) addScaled(b lin, k int64) lin {
	n := a.clone()
	n.c += k * b.c
	for key, v := range b.t {
		n.t[key] += k * v
		if n.t[key] == 0 {
			delete(n.t, key)
		}
	}
	return n
}

func (a lin) String() string {
	var ks []string
	for k := range a.t {
		ks = append(ks, k)
	}
	sort.Strings(ks)
	var sb strings.Builder
	for _, k := range ks {
		fmt.Fprintf(&sb, "%+d*%s ", a.t[k], k)
	}
	fmt.Fprintf(&sb, "%+d", a.c)
	return sb.String()
}

func (lc *linCtx) leafKey(v ssa.Value) string {
	k := fmt.Sprintf("%s@%p", v.Name(), v)
	lc.leaf[k] = v
	return k
}

// expr: the linear form of an integer SSA value.
func (lc *linCtx) expr(v ssa.Value, depth int) lin {
	out := newLin()
	if depth > 12 {
		out.t[lc.leafKey(v)] = 1
		return out
	}
	switch x := v.(type) {
	case *ssa.Const:
		if x.Value != nil && x.Value.Kind() == constant.Int {
			if n, ok := constant.Int64Val(x.Value); ok {
				out.c = n
				return out
			}
		}
	case *ssa.Convert:
		if isIntType(x.X.Type()) && isIntType(x.Type()) {
			return lc.expr(x.X, depth+1)
		}
	case *ssa.ChangeType:
		return lc.expr(x.X, depth+1)
	case *ssa.BinOp:
		switch x.Op {
		case token.ADD:
			return lc.expr(x.X, depth+1).addScaled(lc.expr(x.Y, depth+1), 1)
		case token.SUB:
			return lc.expr(x.X, depth+1).addScaled(lc.expr(x.Y, depth+1), -1)
		case token.MUL:
			a, b := lc.expr(x.X, depth+1), lc.expr(x.Y, depth+1)
			if len(a.t) == 0 {
				return newLin().addScaled(b, a.c)
			}
			if len(b.t) == 0 {
				return newLin().addScaled(a, b.c)
			}
		}
	case *ssa.Call:
		// a module helper with a single return: its result's linear form (leaves are then values of the helper -
		// enough for rules that only ask what kind of quantity the leaves are)
		if cal := x.Call.StaticCallee(); cal != nil && inModule(cal) && cal.Blocks != nil && depth < 6 && isIntType(x.Type()) {
			var ret *ssa.Return
			nRet := 0
			for _, b := range cal.Blocks {
				if r, ok := lastInstr(b).(*ssa.Return); ok {
					ret = r
					nRet++
				}
			}
			if nRet == 1 && len(ret.Results) == 1 {
				return lc.expr(ret.Results[0], depth+6)
			}
		}
		if bi, ok := x.Call.Value.(*ssa.Builtin); ok && bi.Name() == "len" && len(x.Call.Args) == 1 {
			arg := x.Call.Args[0]
			k := fmt.Sprintf("len(%s@%p)", arg.Name(), arg)
			lc.leaf[k] = x
			out.t[k] = 1
			return out
		}
	}
	// a load through a chain of field selections from a local or a parameter: two loads of the same place are the
	// same quantity (between a guard and the guarded use the place is not written: locals of this kind are set as
	// a whole at the head of a loop iteration)
	if ld, ok := v.(*ssa.UnOp); ok && ld.Op == token.MUL {
		if root, path, ok := fieldChain(ld); ok {
			switch root.(type) {
			case *ssa.Alloc, *ssa.Parameter:
				k := fmt.Sprintf("%s@%p.%v", root.Name(), root, path)
				if _, have := lc.leaf[k]; !have {
					lc.leaf[k] = v
				}
				out.t[k] = 1
				return out
			}
		}
	}
	out.t[lc.leafKey(v)] = 1
	return out
}

// nonNegLeaf: the leaf is known to be >= 0: a length, an unsigned value, max(0, .), or a counter that starts at
// a non-negative value and only grows by non-negative constants.
func (lc *linCtx) nonNegLeaf(k string) bool {
	v := lc.leaf[k]
	if v == nil {
		return false
	}
	if strings.HasPrefix(k, "len(") {
		return true
	}
	if b, ok := v.Type().Underlying().(*types.Basic); ok && b.Info()&types.IsUnsigned != 0 {
		return true
	}
	switch x := v.(type) {
	case *ssa.Call:
		if bi, ok := x.Call.Value.(*ssa.Builtin); ok && bi.Name() == "max" {
			for _, a := range x.Call.Args {
				if c, ok := a.(*ssa.Const); ok && c.Value != nil {
					if n, ok := constant.Int64Val(constant.ToInt(c.Value)); ok && n >= 0 {
						return true
					}
				}
			}
		}
	case *ssa.Phi:
		for _, e := range x.Edges {
			le := lc.expr(e, 0)
			switch {
			case len(le.t) == 0 && le.c >= 0:
			case len(le.t) == 1 && le.t[lc.leafKey(x)] == 1 && le.c >= 0:
			case len(le.t) == 1 && le.c >= 0:
				ok := false
				for k2, co := range le.t {
					if co == 1 && strings.HasPrefix(k2, "len(") {
						ok = true
					}
				}
				if !ok {
					return false
				}
			default:
				return false
			}
		}
		return true
	}
	return false
}

// condFacts: the inequalities (each `lin >= 0`) that hold whenever block b is reached.
func (lc *linCtx) condFacts(b *ssa.BasicBlock) []lin {
	var out []lin
	for _, cc := range controlCondsPol(b) {
		// slices.Equal(a, b) holds: the two have the same length
		if call, ok := cc.Cond.(*ssa.Call); ok && cc.Taken && len(call.Call.Args) == 2 {
			if cal := call.Call.StaticCallee(); cal != nil && cal.Object() != nil && cal.Object().Pkg() != nil && cal.Object().Pkg().Path() == "slices" && cal.Object().Name() == "Equal" {
				la, lb := newLin(), newLin()
				for i, l := range []*lin{&la, &lb} {
					arg := stripConv(call.Call.Args[i])
					k := fmt.Sprintf("len(%s@%p)", arg.Name(), arg)
					lc.leaf[k] = call
					l.t[k] = 1
				}
				out = append(out, la.addScaled(lb, -1), lb.addScaled(la, -1))
			}
			continue
		}
		bo, ok := cc.Cond.(*ssa.BinOp)
		if !ok || !isIntType(bo.X.Type()) {
			continue
		}
		x, y := lc.expr(bo.X, 0), lc.expr(bo.Y, 0)
		op := bo.Op
		if !cc.Taken {
			switch op {
			case token.LSS:
				op = token.GEQ
			case token.LEQ:
				op = token.GTR
			case token.GTR:
				op = token.LEQ
			case token.GEQ:
				op = token.LSS
			case token.EQL:
				op = token.NEQ
			case token.NEQ:
				op = token.EQL
			}
		}
		switch op {
		case token.LSS: // x < y  =>  y - x - 1 >= 0
			f := y.addScaled(x, -1)
			f.c--
			out = append(out, f)
		case token.LEQ:
			out = append(out, y.addScaled(x, -1))
		case token.GTR:
			f := x.addScaled(y, -1)
			f.c--
			out = append(out, f)
		case token.GEQ:
			out = append(out, x.addScaled(y, -1))
		case token.EQL:
			out = append(out, x.addScaled(y, -1), y.addScaled(x, -1))
		case token.NEQ:
			// `i != -1` for the result of a strings/bytes Index function (which is -1 or an offset): i >= 0
			for _, pr := range [][2]ssa.Value{{bo.X, bo.Y}, {bo.Y, bo.X}} {
				k, isK := pr[1].(*ssa.Const)
				if !isK || k.Value == nil || k.Value.Kind() != constant.Int {
					continue
				}
				if n, ok := constant.Int64Val(k.Value); !ok || n != -1 {
					continue
				}
				if isIndexResult(pr[0]) {
					out = append(out, lc.expr(pr[0], 0))
				}
				// the result of a module helper that answers -1 or an offset at or behind one of its arguments
				// (`indexFrom(s, sub, from)`): r != -1 gives r >= from (and r >= 0 when every other return is)
				if call, ok := stripConv(pr[0]).(*ssa.Call); ok {
					if cal := call.Call.StaticCallee(); cal != nil && inModule(cal) && cal.Blocks != nil && isIntType(call.Type()) {
						lbs, nonNeg := searchHelperBounds(cal)
						r := lc.expr(pr[0], 0)
						if nonNeg {
							out = append(out, r)
						}
						for _, k := range lbs {
							if k < len(call.Call.Args) {
								out = append(out, r.addScaled(lc.expr(call.Call.Args[k], 0), -1))
							}
						}
					}
				}
			}
		}
	}
	return out
}

var searchHelperMemo = map[*ssa.Function]*struct {
	lbs    []int
	nonNeg bool
}{}

// searchHelperBounds: for a module function with one integer result whose returns are the constant -1 or an
// expression: the indices of the integer parameters p such that result >= p is provable at every other return, and
// whether result >= 0 is provable there.
func searchHelperBounds(f *ssa.Function) ([]int, bool) {
	if m, ok := searchHelperMemo[f]; ok {
		if m == nil {
			return nil, false
		}
		return m.lbs, m.nonNeg
	}
	searchHelperMemo[f] = nil // recursion: nothing known
	if f.Signature.Results().Len() != 1 {
		return nil, false
	}
	lp := newLinProver()
	var rets []*ssa.Return
	sawMinus := false
	for _, b := range f.Blocks {
		r, ok := lastInstr(b).(*ssa.Return)
		if !ok || len(r.Results) != 1 {
			continue
		}
		if k, ok := r.Results[0].(*ssa.Const); ok && k.Value != nil && k.Value.Kind() == constant.Int {
			if n, ok := constant.Int64Val(k.Value); ok && n == -1 {
				sawMinus = true
				continue
			}
		}
		rets = append(rets, r)
	}
	if !sawMinus || len(rets) == 0 {
		return nil, false
	}
	res := &struct {
		lbs    []int
		nonNeg bool
	}{nonNeg: true}
	for i, prm := range f.Params {
		if !isIntType(prm.Type()) {
			continue
		}
		all := true
		for _, r := range rets {
			g := lp.lc.expr(r.Results[0], 0).addScaled(lp.lc.expr(prm, 0), -1)
			if !lp.prove(g, r.Block(), nil, 0) {
				all = false
				break
			}
		}
		if all {
			res.lbs = append(res.lbs, i)
		}
	}
	for _, r := range rets {
		if !lp.prove(lp.lc.expr(r.Results[0], 0), r.Block(), nil, 0) {
			res.nonNeg = false
		}
	}
	searchHelperMemo[f] = res
	return res.lbs, res.nonNeg
}

// isIndexResult: the value is the result of strings.Index*, strings.LastIndex*, bytes.Index* (-1 or an offset).
func isIndexResult(v ssa.Value) bool {
	call, ok := stripConv(v).(*ssa.Call)
	if !ok {
		return false
	}
	cal := call.Call.StaticCallee()
	if cal == nil || cal.Pkg == nil {
		return false
	}
	pp := cal.Pkg.Pkg.Path()
	return (pp == "strings" || pp == "bytes") && (strings.HasPrefix(cal.Name(), "Index") || strings.HasPrefix(cal.Name(), "LastIndex"))
}

// infeasible: the system {f >= 0 : f in sys} has no rational solution (Fourier-Motzkin).
func infeasible(sys []lin) bool {
	cur := make([]lin, 0, len(sys))
	for _, f := range sys {
		cur = append(cur, f.clone())
	}
	for round := 0; round < 24; round++ {
		// a constant contradiction?
		vars := map[string]bool{}
		for _, f := range cur {
			if len(f.t) == 0 && f.c < 0 {
				return true
			}
			for k := range f.t {
				vars[k] = true
			}
		}
		if len(vars) == 0 {
			return false
		}
		// eliminate the variable with the fewest pos*neg combinations
		best, bestCost := "", 1<<30
		var names []string
		for k := range vars {
			names = append(names, k)
		}
		sort.Strings(names)
		for _, k := range names {
			p, n := 0, 0
			for _, f := range cur {
				if f.t[k] > 0 {
					p++
				} else if f.t[k] < 0 {
					n++
				}
			}
			if p*n < bestCost {
				best, bestCost = k, p*n
			}
		}
		var pos, neg, rest []lin
		for _, f := range cur {
			switch {
			case f.t[best] > 0:
				pos = append(pos, f)
			case f.t[best] < 0:
				neg = append(neg, f)
			default:
				rest = append(rest, f)
			}
		}
		for _, p := range pos {
			for _, n := range neg {
				a, b := p.t[best], -n.t[best]
				comb := newLin().addScaled(p, b).addScaled(n, a)
				delete(comb.t, best)
				// normalise by the gcd to keep numbers small
				g := int64(0)
				for _, v := range comb.t {
					g = gcd64(g, abs64(v))
				}
				if g > 1 {
					for k := range comb.t {
						comb.t[k] /= g
					}
					comb.c = floorDiv(comb.c, g)
				}
				rest = append(rest, comb)
			}
		}
		if len(rest) > 400 {
			return false
		}
		cur = rest
	}
	return false
}

func gcd64(a, b int64) int64 {
	for b != 0 {
		a, b = b, a%b
	}
	return a
}
func abs64(a int64) int64 {
	if a < 0 {
		return -a
	}
	return a
}
func floorDiv(a, b int64) int64 {
	q := a / b
	if (a%b != 0) && ((a < 0) != (b < 0)) {
		q--
	}
	return q
}

type linProver struct {
	lc   *linCtx
	memo map[string]bool
}

func newLinProver() *linProver {
	return &linProver{lc: &linCtx{leaf: map[string]ssa.Value{}}, memo: map[string]bool{}}
}

// prove: goal >= 0 holds whenever block b is reached (hyps: further facts assumed on the way).
func (lp *linProver) prove(goal lin, b *ssa.BasicBlock, hyps []lin, depth int) bool {
	if len(goal.t) == 0 {
		return goal.c >= 0
	}
	key := fmt.Sprintf("%s|%p|%d", goal.String(), b, len(hyps))
	if v, ok := lp.memo[key]; ok {
		return v
	}
	lp.memo[key] = false // cycles count as "not proven"
	facts := append([]lin(nil), hyps...)
	facts = append(facts, lp.lc.condFacts(b)...)
	// non-negativity of the leaves that occur
	seen := map[string]bool{}
	for _, f := range append(append([]lin(nil), facts...), goal) {
		for k := range f.t {
			if !seen[k] {
				seen[k] = true
				if lp.lc.nonNegLeaf(k) {
					nn := newLin()
					nn.t[k] = 1
					facts = append(facts, nn)
				}
			}
		}
	}
	neg := newLin().addScaled(goal, -1)
	neg.c--
	if infeasible(append(facts, neg)) {
		lp.memo[key] = true
		return true
	}
	if depth >= 6 {
		return false
	}
	// induction over a phi the goal mentions
	var keys []string
	for k := range goal.t {
		keys = append(keys, k)
	}
	sort.Strings(keys)
	for _, k := range keys {
		phi, ok := lp.lc.leaf[k].(*ssa.Phi)
		if !ok {
			continue
		}
		hb := phi.Block()
		if !(hb == b || hb.Dominates(b)) {
			continue
		}
		all := true
		for i, pred := range hb.Preds {
			sub := goal.clone()
			// parallel copy: every phi of the header that the goal mentions takes its value on edge i
			for _, ins := range hb.Instrs {
				p2, ok := ins.(*ssa.Phi)
				if !ok {
					break
				}
				k2 := lp.lc.leafKey(p2)
				if co, ok := sub.t[k2]; ok && i < len(p2.Edges) {
					delete(sub.t, k2)
					sub = sub.addScaled(lp.lc.expr(p2.Edges[i], 0), co)
				}
			}
			h2 := append([]lin(nil), hyps...)
			if reachesBlock(hb, pred) {
				h2 = append(h2, goal) // induction hypothesis for the values of the current iteration
			}
			if !lp.prove(sub, pred, h2, depth+1) {
				all = false
				break
			}
		}
		if all {
			lp.memo[key] = true
			return true
		}
	}
	return false
}

// ruleLinear (U-WRAP, S-ORDER).
// U-WRAP: a difference of two run-time quantities that is converted to an unsigned integer type is provably
// non-negative at the conversion (otherwise a negative count wraps to ~4.29e9: a DeleteCount, a length, a
// character offset far outside the document).  S-ORDER: for a slice expression x[lo:hi] on a slice of numbers or
// structs (not text), 0 <= lo <= hi <= len(x) is provable (otherwise the request panics with "slice bounds out
// of range").  "Provable" is decided by linProver from the conditions in force and by induction over loop
// counters; a site that is not provable is a finding.  Differences with a constant subtrahend (`line - 1`, the
// 1-based to 0-based conversions) are out of scope: they need a value invariant of the syntax tree.
func ruleLinear(c *Ctx) {
	ci := buildConc(c)
	nWrap, nSlice := 0, 0
	for _, f := range ci.funcs {
		if !(ci.reachH[f] || ci.reachG[f]) || f.Blocks == nil {
			continue
		}
		lp := newLinProver()
		ordW, ordS := 0, 0
		for _, b := range f.Blocks {
			for _, ins := range b.Instrs {
				switch x := ins.(type) {
				case *ssa.Convert:
					bt, ok := x.Type().Underlying().(*types.Basic)
					if !ok || bt.Info()&types.IsUnsigned == 0 || !isIntType(x.X.Type()) {
						continue
					}
					if sb, ok := x.X.Type().Underlying().(*types.Basic); ok && sb.Info()&types.IsUnsigned != 0 {
						continue
					}
					e := lp.lc.expr(x.X, 0)
					negVar := false
					for _, co := range e.t {
						if co < 0 {
							negVar = true
						}
					}
					if !negVar {
						continue
					}
					nWrap++
					ordW++
					ok = lp.prove(e, b, nil, 0)
					c.check(ok, "U-WRAP", funcName(f), fmt.Sprintf("unsigned conversion of a difference #%d", ordW), x.Pos(),
						"the difference is provably non-negative where it is converted",
						"a difference of two run-time quantities ("+describeLin(lp.lc, e)+") is converted to "+bt.Name()+" although nothing on the way shows it is non-negative: when the subtrahend is the larger one the result wraps around to about 4.29e9 (a delete count, length or offset far outside the document)")
				case *ssa.Slice:
					st, isSlice := x.X.Type().Underlying().(*types.Slice)
					if !isSlice {
						continue
					}
					if eb, ok := st.Elem().Underlying().(*types.Basic); ok && eb.Kind() == types.Uint8 {
						continue // text
					}
					if x.Low == nil && x.High == nil {
						continue
					}
					lenX := newLin()
					k := fmt.Sprintf("len(%s@%p)", x.X.Name(), x.X)
					lp.lc.leaf[k] = x
					lenX.t[k] = 1
					lo, hi := newLin(), lenX
					if x.Low != nil {
						lo = lp.lc.expr(x.Low, 0)
					}
					if x.High != nil {
						hi = lp.lc.expr(x.High, 0)
					}
					if len(lo.t) == 0 && len(hi.t) == 0 {
						continue
					}
					// scope: scanning windows - a bound that is moved by a loop
					counter := false
					for _, e := range []lin{lo, hi} {
						for k := range e.t {
							if phi, ok := lp.lc.leaf[k].(*ssa.Phi); ok && inCycle(phi.Block()) {
								counter = true
							}
						}
					}
					if !counter {
						continue
					}
					nSlice++
					ordS++
					var bad []string
					if !lp.prove(lo, b, nil, 0) {
						bad = append(bad, "0 <= low")
					}
					if !lp.prove(hi.addScaled(lo, -1), b, nil, 0) {
						bad = append(bad, "low <= high")
					}
					if x.High != nil && !lp.prove(lenX.addScaled(hi, -1), b, nil, 0) {
						// append-style windows x[:n] on a slice with spare capacity are legal up to cap(x): only a
						// bound that is not derived from the slice's own length is reported
						if mentionsOnlyOwnLen(hi, k) {
							bad = append(bad, "high <= len")
						}
					}
					c.check(len(bad) == 0, "S-ORDER", funcName(f), fmt.Sprintf("bounds of slice expression #%d", ordS), x.Pos(),
						"0 <= low <= high <= len is provable from the conditions in force and the loop counters' invariants",
						"the bounds of a slice expression on a non-text slice are not provably ordered ("+strings.Join(bad, ", ")+" not shown; low = "+describeLin(lp.lc, lo)+", high = "+describeLin(lp.lc, hi)+"): for some input the request panics with 'slice bounds out of range'")
				}
			}
		}
	}
	c.census("U-WRAP", "unsigned conversions of run-time differences on request paths", nWrap, 1)
	c.note("S-ORDER: %d slice expressions with run-time bounds on non-text slices", nSlice)
}

// mentionsOnlyOwnLen: the bound is expressed through the length of the sliced value itself (len(x) - k ...):
// then high <= len(x) is a real obligation; a bound from elsewhere may rely on capacity.
func mentionsOnlyOwnLen(hi lin, ownLen string) bool {
	_, ok := hi.t[ownLen]
	return ok
}

func describeLin(lc *linCtx, e lin) string {
	var ks []string
	for k := range e.t {
		ks = append(ks, k)
	}
	sort.Strings(ks)
	var parts []string
	for _, k := range ks {
		name := k
		if i := strings.Index(name, "@"); i >= 0 {
			// "t12@0xc000..." -> the source-level name when there is one
			j := strings.IndexAny(name[i:], ")")
			tail := ""
			if j >= 0 {
				tail = name[i+j:]
			}
			name = name[:i] + tail
		}
		if v := lc.leaf[k]; v != nil {
			if p, ok := v.(*ssa.Phi); ok && p.Comment != "" {
				name = p.Comment
			}
			if p, ok := v.(*ssa.Parameter); ok {
				name = p.Name()
			}
		}
		co := e.t[k]
		switch {
		case co == 1:
			parts = append(parts, "+"+name)
		case co == -1:
			parts = append(parts, "-"+name)
		default:
			parts = append(parts, fmt.Sprintf("%+d*%s", co, name))
		}
	}
	if e.c != 0 {
		parts = append(parts, fmt.Sprintf("%+d", e.c))
	}
	return strings.TrimPrefix(strings.Join(parts, " "), "+")
}

// ruleTokenOrder (T12-ORDER): two semantic tokens that one pass over a text emits one after the other do not
// overlap and are in order.  A function that places tokens by byte offsets into a text (column = UTF-16 length of
// text[:offset]) and emits token A and later, in the same iteration, token B (A's construction dominates B's) must
// place B at or behind the end of A's lexeme: offset(B) >= offset(A) + bytes(A), where bytes(A) is A's length with
// every UTF16Len(s) read as len(s) (the lexeme's size in the unit the offsets are in).  Decided by the linear prover
// from the conditions in force (`i != -1` for a strings.Index result gives i >= 0).  A value token located by a
// search that starts before the end of its tag (the cursor advanced only after the search) is not provable: the
// value's text found earlier in the comment puts the token before or inside the tag, the delta encoding wraps.
func ruleTokenOrder(c *Ctx) {
	type tok struct {
		place  ssa.Value
		block  *ssa.BasicBlock
		pos    token.Pos
		col    ssa.Value
		length ssa.Value
	}
	n, nCur := 0, 0
	for _, f := range c.P.ModuleFuncs() {
		if f.Blocks == nil {
			continue
		}
		toks := map[ssa.Value]*tok{}
		var order []*tok
		for _, b := range f.Blocks {
			for _, ins := range b.Instrs {
				st, ok := ins.(*ssa.Store)
				if !ok {
					continue
				}
				fa, ok := st.Addr.(*ssa.FieldAddr)
				if !ok {
					continue
				}
				k := fieldKey(fa.X.Type(), fa.Field)
				if k != "server.semanticToken.col" && k != "server.semanticToken.length" {
					continue
				}
				t := toks[fa.X]
				if t == nil {
					t = &tok{place: fa.X, block: b, pos: st.Pos()}
					toks[fa.X] = t
					order = append(order, t)
				}
				if k == "server.semanticToken.col" {
					t.col = st.Val
				} else {
					t.length = st.Val
				}
			}
		}
		if len(order) < 2 {
			continue
		}
		lp := newLinProver()
		// offsetOf: col = ... + UTF16Len(text[:h]) ...  ->  (text, h)
		var offsetOf func(v ssa.Value, depth int) (ssa.Value, ssa.Value)
		offsetOf = func(v ssa.Value, depth int) (ssa.Value, ssa.Value) {
			if depth > 8 {
				return nil, nil
			}
			switch x := v.(type) {
			case *ssa.Convert:
				return offsetOf(x.X, depth+1)
			case *ssa.ChangeType:
				return offsetOf(x.X, depth+1)
			case *ssa.BinOp:
				if x.Op == token.ADD {
					if t, h := offsetOf(x.X, depth+1); t != nil {
						return t, h
					}
					return offsetOf(x.Y, depth+1)
				}
			case *ssa.Call:
				if cal := x.Call.StaticCallee(); cal != nil && strings.HasSuffix(cal.Name(), "UTF16Len") && len(x.Call.Args) == 1 {
					if sl, ok := stripConv(x.Call.Args[0]).(*ssa.Slice); ok && sl.Low == nil && sl.High != nil {
						return stripConv(sl.X), sl.High
					}
				}
				// a column helper (a local closure or a module function with one return) that is handed the offset:
				// `colAt := func(offset int) uint32 { return base + 1 + uint32(UTF16Len(text[:offset])) }`
				if cal := x.Call.StaticCallee(); cal != nil && inModule(cal) && cal.Blocks != nil && depth < 4 {
					var ret *ssa.Return
					nRet := 0
					for _, b := range cal.Blocks {
						if r, ok := lastInstr(b).(*ssa.Return); ok {
							ret, nRet = r, nRet+1
						}
					}
					if nRet == 1 && len(ret.Results) == 1 {
						if t, h := offsetOf(ret.Results[0], depth+4); t != nil {
							if prm, ok := stripConv(h).(*ssa.Parameter); ok {
								for i, q := range cal.Params {
									if q == prm && i < len(x.Call.Args) {
										// the text is identified by the helper's own read of it (one place for every caller);
										// a text that is itself a parameter is bound to the argument
										if tp, ok := t.(*ssa.Parameter); ok {
											for j, q2 := range cal.Params {
												if q2 == tp && j < len(x.Call.Args) {
													return stripConv(x.Call.Args[j]), x.Call.Args[i]
												}
											}
											return nil, nil
										}
										return t, x.Call.Args[i]
									}
								}
							}
						}
					}
				}
			}
			return nil, nil
		}
		// bytesOf: the length field with UTF16Len(s) read as len(s)
		var bytesOf func(v ssa.Value, depth int) (lin, bool)
		bytesOf = func(v ssa.Value, depth int) (lin, bool) {
			out := newLin()
			if depth > 8 {
				return out, false
			}
			switch x := v.(type) {
			case *ssa.Const:
				if x.Value != nil && x.Value.Kind() == constant.Int {
					if k, ok := constant.Int64Val(x.Value); ok {
						out.c = k
						return out, true
					}
				}
			case *ssa.Convert:
				return bytesOf(x.X, depth+1)
			case *ssa.ChangeType:
				return bytesOf(x.X, depth+1)
			case *ssa.BinOp:
				if x.Op == token.ADD {
					a, ok1 := bytesOf(x.X, depth+1)
					b, ok2 := bytesOf(x.Y, depth+1)
					return a.addScaled(b, 1), ok1 && ok2
				}
			case *ssa.Call:
				if cal := x.Call.StaticCallee(); cal != nil && strings.HasSuffix(cal.Name(), "UTF16Len") && len(x.Call.Args) == 1 {
					arg := x.Call.Args[0]
					k := fmt.Sprintf("len(%s@%p)", arg.Name(), arg)
					lp.lc.leaf[k] = x
					out.t[k] = 1
					return out, true
				}
			}
			return out, false
		}
		for _, a := range order {
			ta, ha := offsetOf(a.col, 0)
			if ta == nil || a.length == nil {
				continue
			}
			la, ok := bytesOf(a.length, 0)
			if !ok {
				continue
			}
			// T12-CURSOR: the token is placed relative to a cursor carried round a loop (its offset mentions a phi of a
			// loop header with coefficient 1): the token starts at or behind the cursor, and on every way back to the
			// header that passes the token's construction the cursor is moved to or behind the token's end - so the
			// next iteration's search cannot find its lexeme inside this one.
			hl := lp.lc.expr(ha, 0)
			for k, co := range hl.t {
				phi, ok := lp.lc.leaf[k].(*ssa.Phi)
				if !ok || co != 1 || !phi.Block().Dominates(a.block) || phi.Block() == a.block {
					continue
				}
				hb := phi.Block()
				isHeader := false
				for _, pred := range hb.Preds {
					if reachesBlock(hb, pred) {
						isHeader = true
					}
				}
				if !isHeader {
					continue
				}
				nCur++
				cur := newLin()
				cur.t[k] = 1
				g1 := hl.addScaled(cur, -1)
				okStart := lp.prove(g1, a.block, nil, 0)
				c.check(okStart, "T12-CURSOR", funcName(f), "a token starts at or behind the scan cursor", a.pos,
					"offset - cursor = "+describeLin(lp.lc, g1)+" >= 0 is proved",
					"a token placed relative to a loop-carried cursor is not provably at or behind it ("+describeLin(lp.lc, g1)+" >= 0)")
				// the blocks of this iteration that lie behind the token's construction
				after := map[*ssa.BasicBlock]bool{a.block: true}
				for work := []*ssa.BasicBlock{a.block}; len(work) > 0; {
					x := work[len(work)-1]
					work = work[:len(work)-1]
					for _, sx := range x.Succs {
						if sx != hb && !after[sx] {
							after[sx] = true
							work = append(work, sx)
						}
					}
				}
				for i, pred := range hb.Preds {
					if !reachesBlock(hb, pred) || !after[pred] || i >= len(phi.Edges) {
						continue
					}
					g2 := lp.lc.expr(phi.Edges[i], 0).addScaled(hl, -1).addScaled(la, -1)
					var hyps []lin
					if !(a.block == pred || a.block.Dominates(pred)) {
						// a way back that need not pass the token: judged only when the new cursor is one expression whatever
						// the path (no merge of values inside the iteration); what held at the token still holds
						merged := false
						for k2 := range g2.t {
							if p2, ok := lp.lc.leaf[k2].(*ssa.Phi); ok && p2.Block() != hb {
								merged = true
							}
						}
						if merged {
							continue
						}
						hyps = lp.lc.condFacts(a.block)
					}
					okEnd := lp.prove(g2, pred, hyps, 0)
					c.check(okEnd, "T12-CURSOR", funcName(f), "the scan cursor is moved behind every token of the iteration", a.pos,
						"next cursor - offset - bytes = "+describeLin(lp.lc, g2)+" >= 0 is proved on the way back to the loop header at "+c.P.pos(lastInstr(pred).Pos()),
						"on the way back to the loop header at "+c.P.pos(lastInstr(pred).Pos())+" the cursor for the next iteration is not provably at or behind the end of a token emitted in this one ("+describeLin(lp.lc, g2)+" >= 0): the next search starts inside this token's lexeme, and a later token whose text also occurs there is placed inside or before it - tokens out of order, overlapping")
				}
			}
			for _, b := range order {
				if a == b || !(a.block.Dominates(b.block)) || a.block == b.block {
					continue
				}
				tb, hb := offsetOf(b.col, 0)
				if tb == nil || tb != ta {
					continue
				}
				n++
				goal := lp.lc.expr(hb, 0).addScaled(lp.lc.expr(ha, 0), -1).addScaled(la, -1)
				proved := lp.prove(goal, b.block, nil, 0)
				c.check(proved, "T12-ORDER", funcName(f), "a token emitted after another starts at or behind the other's end", b.pos,
					"offset(later) - offset(earlier) - bytes(earlier) = "+describeLin(lp.lc, goal)+" >= 0 is proved from the conditions in force",
					"two tokens are placed by byte offsets into the same text, the second in the same iteration after the first, and offset(second) >= offset(first) + bytes(first) is not provable ("+describeLin(lp.lc, goal)+" >= 0): the search for the second lexeme can start before the end of the first, so the second token can lie before or inside the first - tokens out of document order, overlapping, a wrapped deltaStart")
			}
		}
	}
	c.census("T12-CURSOR", "tokens placed relative to a loop-carried cursor", nCur, 0)
	// no floor: when the tokens are built by a constructor helper that is handed the offset, or the search is moved into
	// a helper with several returns, the pair is no longer visible in one function and the rule says nothing
	c.census("T12-ORDER", "pairs of tokens placed by byte offsets into one text in one iteration", n, 0)
}
