package main

// I-QUERY: the typed fragment is what stands in front of the cursor.
//
// The completion helpers that turn (document text, cursor position) into a string - the fragment the candidates are
// filtered by, the prefix of an account, the name of the tag being typed - cut the cursor's line at the converted
// cursor column (`line[:byteCol]`).  Whatever string they return depends on the line only through that cut: text
// behind the cursor is not part of what was typed.  A helper that is handed the whole line (a shared posting
// splitter, a parse of the line) makes the fragment run to the end of the line: `10 U|SD` filters by "USD", and a
// posting with a cost or a comment behind the cursor offers nothing at all.

import (
	"go/token"
	"go/types"

	"golang.org/x/tools/go/ssa"
)

func ruleQueryBeforeCursor(c *Ctx) {
	spk := c.P.SSAPkg("internal/server")
	n := 0
	for _, f := range c.P.ModuleFuncs() {
		if f.Pkg != spk || f.Blocks == nil {
			continue
		}
		// string results only
		res := f.Signature.Results()
		hasString := false
		for i := 0; i < res.Len(); i++ {
			if b, ok := res.At(i).Type().Underlying().(*types.Basic); ok && b.Info()&types.IsString != 0 {
				hasString = true
			}
		}
		if !hasString {
			continue
		}
		// the cursor cuts of this function: L[:c] with c derived from the conversion of a client column
		lines := map[ssa.Value]bool{}
		cuts := map[ssa.Value]bool{}
		for _, b := range f.Blocks {
			for _, ins := range b.Instrs {
				sl, ok := ins.(*ssa.Slice)
				if !ok || sl.Low != nil || sl.High == nil || types.TypeString(sl.X.Type().Underlying(), nil) != "string" {
					continue
				}
				if directFromConversion(sl.High, map[ssa.Value]bool{}) {
					lines[sl.X] = true
					cuts[sl] = true
				}
			}
		}
		if len(lines) == 0 {
			continue
		}
		// walk back from the returned strings; the cut is a barrier
		seen := map[ssa.Value]bool{}
		var leak token.Pos
		var walk func(v ssa.Value, via token.Pos)
		walk = func(v ssa.Value, via token.Pos) {
			if v == nil || seen[v] || leak != token.NoPos {
				return
			}
			seen[v] = true
			if cuts[v] {
				return
			}
			if lines[v] {
				leak = via
				return
			}
			switch x := v.(type) {
			case *ssa.Call:
				if bi, ok := x.Call.Value.(*ssa.Builtin); ok && (bi.Name() == "len" || bi.Name() == "cap") {
					return // a length is not text
				}
				for _, a := range x.Call.Args {
					walk(a, x.Pos())
				}
				return
			case *ssa.Alloc:
				// a local: everything stored into it or into a part of it
				var stores func(a ssa.Value, depth int)
				stores = func(a ssa.Value, depth int) {
					if a.Referrers() == nil || depth > 4 {
						return
					}
					for _, r := range *a.Referrers() {
						switch u := r.(type) {
						case *ssa.Store:
							if u.Addr == a {
								walk(u.Val, via)
							}
						case *ssa.FieldAddr:
							if u.X == a {
								stores(u, depth+1)
							}
						case *ssa.IndexAddr:
							if u.X == a {
								stores(u, depth+1)
							}
						}
					}
				}
				stores(x, 0)
				return
			}
			if ins, ok := v.(ssa.Instruction); ok {
				for _, op := range ins.Operands(nil) {
					if op != nil && *op != nil {
						if _, isSlice := v.(*ssa.Slice); isSlice && *op != v.(*ssa.Slice).X {
							continue // bounds are numbers, not text
						}
						walk(*op, via)
					}
				}
			}
		}
		for _, b := range f.Blocks {
			if ret, ok := lastInstr(b).(*ssa.Return); ok {
				for _, rv := range ret.Results {
					if bt, ok := rv.Type().Underlying().(*types.Basic); ok && bt.Info()&types.IsString != 0 {
						walk(rv, ret.Pos())
					}
				}
			}
		}
		n++
		c.check(leak == token.NoPos, "I-QUERY", funcName(f), "a string computed at the cursor depends on the line only through the cut at the cursor", f.Pos(),
			"every returned string is derived from the text in front of the cursor",
			"a string returned by this cursor helper is computed from the whole cursor line (at "+c.P.pos(leak)+"), not from the part in front of the cursor: text behind the cursor becomes part of the typed fragment, so candidates that start with what was typed are filtered out")
	}
	c.census("I-QUERY", "helpers that cut the cursor line at the converted column and return text", n, 1)
}

// ruleTreeMember (H-MEMBER): the root of a tree is a member of it.  A ResolvedJournal keeps its root journal in
// Primary and only the included files in Files.  Where the server decides by a comma-ok lookup in Files whether a
// document belongs to the workspace's tree (to answer from that tree or from the document's own), the same
// function also compares the document's path with the workspace's root journal path - otherwise requests made from
// the root document fall out of the workspace tree: they are answered from a tree re-read from disk, without the
// unsaved edits of the included files the workspace holds.
func ruleTreeMember(c *Ctx) {
	if c.ranOnce("ruleTreeMember") {
		return
	}
	spk := c.P.SSAPkg("internal/server")
	n := 0
	for _, f := range c.P.ModuleFuncs() {
		top := f
		for top.Parent() != nil {
			top = top.Parent()
		}
		if top.Pkg != spk {
			continue
		}
		var lookups []*ssa.Lookup
		rootCmp := false
		for _, b := range f.Blocks {
			for _, ins := range b.Instrs {
				switch x := ins.(type) {
				case *ssa.Lookup:
					if !x.CommaOk {
						continue
					}
					ld, ok := x.X.(*ssa.UnOp)
					if !ok || ld.Op != token.MUL {
						continue
					}
					fa, ok := ld.X.(*ssa.FieldAddr)
					if !ok || !typeHasSuffix(fa.X.Type(), "include.ResolvedJournal") || fieldVarOfAddr(fa).Name() != "Files" {
						continue
					}
					// only membership tests: the looked-up journal itself is not used
					usedValue := false
					if x.Referrers() != nil {
						for _, r := range *x.Referrers() {
							if ex, ok := r.(*ssa.Extract); ok && ex.Index == 0 && ex.Referrers() != nil && len(*ex.Referrers()) > 0 {
								usedValue = true
							}
						}
					}
					if !usedValue {
						lookups = append(lookups, x)
					}
				case *ssa.BinOp:
					if x.Op != token.EQL && x.Op != token.NEQ {
						continue
					}
					for _, op := range []ssa.Value{x.X, x.Y} {
						// also through parameters: `treeCovers(tree, rootPath, docPath)` is handed the root path
						for v := range sliceUp(buildConc(c), op, f) {
							if call, ok := v.(*ssa.Call); ok {
								if cal := call.Call.StaticCallee(); cal != nil && calleeNameIs(cal, "workspace.Workspace).RootJournalPath") {
									rootCmp = true
								}
							}
						}
					}
				}
			}
		}
		for range lookups {
			n++
		}
		if len(lookups) > 0 {
			c.check(rootCmp, "H-MEMBER", funcName(f), "membership in a tree's Files is completed by a comparison with the root path", lookups[0].Pos(),
				"the function that tests Files membership also compares with Workspace.RootJournalPath()",
				"a document is taken to belong to the workspace's tree only if it is in ResolvedJournal.Files - but the root journal is kept in Primary, not in Files: requests made from the root document are answered from another tree (re-read from disk, without the unsaved edits of included files the workspace holds)")
		}
	}
	c.note("H-MEMBER: membership tests in ResolvedJournal.Files in the server: %d", n)
	if n == 0 {
		c.ok("H-MEMBER", "server", "no membership test in a tree's Files", token.NoPos, "the server does not decide tree membership by a lookup in Files")
	}
}
