package main

// Engine E (DESIGN §3.E): exactness and boundedness of money values.

import (
	"fmt"
	"go/ast"
	"go/constant"
	"go/token"
	"go/types"
	"sort"
	"strings"

	"golang.org/x/tools/go/ssa"
)

const decimalPkg = "github.com/shopspring/decimal"

// exact operations: results are exact decimals (no rounding, no float).
var decimalExact = map[string]bool{
	"Add": true, "Sub": true, "Mul": true, "Neg": true, "Abs": true, "IsZero": true, "IsNegative": true,
	"IsPositive": true, "Sign": true, "Cmp": true, "Equal": true, "Equals": true, "String": true,
	"Exponent": true, "Coefficient": true, "GreaterThan": true, "LessThan": true,
	"GreaterThanOrEqual": true, "LessThanOrEqual": true, "Copy": true, "NumDigits": true,
	// package-level constructors that are exact on their domain
	"NewFromString": true, "RequireFromString": true, "NewFromInt": true, "NewFromInt32": true, "New": true,
	"Zero": true, "Sum": true, "Max": true, "Min": true,
}

var decimalCompare = map[string]bool{"Cmp": true, "Equal": true, "Equals": true, "GreaterThan": true, "LessThan": true, "GreaterThanOrEqual": true, "LessThanOrEqual": true}

// everything else on decimal.Decimal is treated as lossy (Div*, Round*, Truncate, Floor, Ceil,
// StringFixed*, IntPart, Float64, InexactFloat64, Pow, NewFromFloat*, Shift with negative arg, ...).

type decCall struct {
	fd   *ast.FuncDecl
	call *ast.CallExpr
	name string
	pkg  string // module-relative package
}

func decimalCalls(p *Prog) []decCall {
	var out []decCall
	for _, fd := range p.AllFuncDecls() {
		info := p.InfoFor(fd)
		pk := p.pkgOf[fd]
		rel := strings.TrimPrefix(strings.TrimPrefix(pk.PkgPath, modPath), "/")
		ast.Inspect(fd.Body, func(n ast.Node) bool {
			call, ok := n.(*ast.CallExpr)
			if !ok {
				return true
			}
			o := calleeOf(info, call)
			fn, ok := o.(*types.Func)
			if !ok || fn.Pkg() == nil || fn.Pkg().Path() != decimalPkg {
				return true
			}
			out = append(out, decCall{fd, call, fn.Name(), rel})
			return true
		})
	}
	return out
}

// ruleDecimalExact (D-EXACT): in the packages that compute verdicts, balances and hover figures,
// money is touched only through exact operations.
func ruleDecimalExact(pkgs ...string) func(*Ctx) {
	return func(c *Ctx) {
		want := map[string]bool{}
		for _, p := range pkgs {
			want[p] = true
		}
		// helpers in other packages (methods of syntax-tree types, utilities) that the parser, the analyzer or the
		// workspace call are part of the same path
		reached := map[*ast.FuncDecl]bool{}
		var work []*ast.FuncDecl
		for _, fd := range c.P.AllFuncDecls() {
			rel := strings.TrimPrefix(strings.TrimPrefix(c.P.pkgOf[fd].PkgPath, modPath), "/")
			if want[rel] && rel != "internal/server" && fd.Body != nil {
				work = append(work, fd)
			}
		}
		for len(work) > 0 {
			fd := work[len(work)-1]
			work = work[:len(work)-1]
			info := c.P.InfoFor(fd)
			ast.Inspect(fd.Body, func(n ast.Node) bool {
				if call, ok := n.(*ast.CallExpr); ok {
					if fn, ok := calleeOf(info, call).(*types.Func); ok {
						if d := c.P.declOf[fn]; d != nil && d.Body != nil && !reached[d] {
							rel := strings.TrimPrefix(strings.TrimPrefix(c.P.pkgOf[d].PkgPath, modPath), "/")
							if !want[rel] && rel != "internal/formatter" {
								reached[d] = true
								work = append(work, d)
							}
						}
					}
				}
				return true
			})
		}
		n := 0
		for _, dc := range decimalCalls(c.P) {
			if !want[dc.pkg] && !reached[dc.fd] {
				continue
			}
			n++
			fname := c.P.declName(dc.fd)
			desc := "decimal." + dc.name
			if decimalCompare[dc.name] && dc.pkg == "internal/analyzer" {
				// the verdict is an exact sign/zero test; a comparison against anything but decimal.Zero is a tolerance
				zeroArg := false
				if len(dc.call.Args) == 1 {
					if se, ok := ast.Unparen(dc.call.Args[0]).(*ast.SelectorExpr); ok && se.Sel.Name == "Zero" {
						zeroArg = true
					}
				}
				c.check(zeroArg, "D-EXACT", fname, desc+" (comparison)", dc.call.Pos(), "comparison against decimal.Zero",
					"balance/aggregation path compares a quantity with a non-zero bound ("+exprStr(c.P.Fset, dc.call)+"): the verdict must be an exact zero test, not a tolerance")
				continue
			}
			if decimalExact[dc.name] {
				c.ok("D-EXACT", fname, desc, dc.call.Pos(), "exact operation")
			} else {
				c.finding("D-EXACT", fname, desc, dc.call.Pos(),
					fmt.Sprintf("lossy decimal operation %s on the verdict/aggregation path (%s): sums and comparisons must be exact", dc.name, exprStr(c.P.Fset, dc.call)))
			}
		}
		c.census("D-EXACT", "decimal operations in "+strings.Join(pkgs, ","), n, 1)
		// also: no float arithmetic on quantities: any conversion of a decimal to float is a lossy op above;
		// additionally flag float64/float32-typed struct fields in ast (quantities must be decimal.Decimal)
		if astPk := c.P.ByRel["internal/ast"]; astPk != nil {
			if obj := astPk.Types.Scope().Lookup("Amount"); obj != nil {
				st, _ := obj.Type().Underlying().(*types.Struct)
				okQ := false
				if st != nil {
					for i := 0; i < st.NumFields(); i++ {
						f := st.Field(i)
						if f.Name() == "Quantity" && types.TypeString(f.Type(), nil) == decimalPkg+".Decimal" {
							okQ = true
						}
					}
				}
				c.check(okQ, "D-EXACT", "ast.Amount", "Quantity field type", obj.Pos(), "Quantity is decimal.Decimal", "ast.Amount.Quantity is not an exact decimal.Decimal")
			}
		}
	}
}

// ruleDecimalLossyGuard (D-LOSSY-GUARD): in the formatter a lossy rendering of a user quantity must be
// control-dependent on a test of that quantity's Exponent() (the display format is applied only
// when it can show every digit).  Checked on SSA: every call of a module function that (transitively)
// applies a lossy decimal operation to a decimal parameter, made from a function that is itself not
// such a "lossy function", must sit in a block dominated by a branch whose condition depends on a
// call to (decimal.Decimal).Exponent.
func ruleDecimalLossyGuard(c *Ctx) {
	prog := c.P.SSA()
	_ = prog
	lossyFn := map[*ssa.Function]string{} // function -> lossy op reached
	funcs := c.P.ModuleFuncs()
	// direct
	for _, f := range funcs {
		for _, b := range f.Blocks {
			for _, ins := range b.Instrs {
				call, ok := ins.(ssa.CallInstruction)
				if !ok {
					continue
				}
				cal := call.Common().StaticCallee()
				if cal == nil || cal.Pkg == nil || cal.Pkg.Pkg.Path() != decimalPkg {
					continue
				}
				if !decimalExact[cal.Name()] {
					if _, seen := lossyFn[f]; !seen {
						lossyFn[f] = cal.Name()
					}
				}
			}
		}
	}
	// only functions that take a decimal parameter propagate "lossiness" to their callers
	hasDecParam := func(f *ssa.Function) bool {
		for _, p := range f.Params {
			if types.TypeString(p.Type(), nil) == decimalPkg+".Decimal" {
				return true
			}
		}
		return false
	}
	// wrappers: a function with a decimal parameter that hands it, unguarded, to a lossy function with a decimal
	// parameter is itself lossy (the obligation moves to its callers)
	for changed := true; changed; {
		changed = false
		for _, f := range funcs {
			if _, isLossy := lossyFn[f]; isLossy || !hasDecParam(f) {
				continue
			}
			for _, b := range f.Blocks {
				for _, ins := range b.Instrs {
					call, ok := ins.(ssa.CallInstruction)
					if !ok {
						continue
					}
					cal := call.Common().StaticCallee()
					if cal == nil {
						continue
					}
					if op, isLossy := lossyFn[cal]; isLossy && hasDecParam(cal) && !dominatedByExponentTest(b) {
						if _, done := lossyFn[f]; !done {
							lossyFn[f] = op
							changed = true
						}
					}
				}
			}
		}
	}
	nSites := 0
	var names []string
	for f := range lossyFn {
		names = append(names, funcName(f))
	}
	sort.Strings(names)
	for _, f := range funcs {
		if _, isLossy := lossyFn[f]; isLossy {
			continue
		}
		for _, b := range f.Blocks {
			for _, ins := range b.Instrs {
				call, ok := ins.(ssa.CallInstruction)
				if !ok {
					continue
				}
				cal := call.Common().StaticCallee()
				if cal == nil {
					continue
				}
				op, isLossy := lossyFn[cal]
				if !isLossy || !hasDecParam(cal) {
					continue
				}
				nSites++
				guarded := dominatedByExponentTest(b)
				c.check(guarded, "D-LOSSY-GUARD", funcName(f), "call "+funcName(cal), ins.Pos(),
					"call of a rounding function is control-dependent on an Exponent() test",
					fmt.Sprintf("%s (which applies lossy %s) is applied to a quantity without a dominating test of its Exponent(): a display format with fewer decimals than the amount carries changes the amount", funcName(cal), op))
			}
		}
	}
	// direct lossy ops inside functions without decimal params (i.e. not wrappers) in formatter
	for _, f := range funcs {
		op, isLossy := lossyFn[f]
		if !isLossy || hasDecParam(f) {
			continue
		}
		if f.Pkg == nil || !strings.HasSuffix(f.Pkg.Pkg.Path(), "/formatter") {
			continue
		}
		nSites++
		c.finding("D-LOSSY-GUARD", funcName(f), "direct lossy op "+op, f.Pos(), "lossy decimal operation applied directly (not through a guarded formatting helper)")
	}
	c.note("lossy functions (apply a non-exact decimal operation): %s", strings.Join(names, ", "))
	c.census("D-LOSSY-GUARD", "call sites of rounding functions", nSites, 1)
}

func dominatedByExponentTest(b *ssa.BasicBlock) bool {
	for d := b.Idom(); d != nil; d = d.Idom() {
		if len(d.Instrs) == 0 {
			continue
		}
		ifi, ok := d.Instrs[len(d.Instrs)-1].(*ssa.If)
		if !ok {
			continue
		}
		// b must be reachable only through one branch: require that b is dominated by a successor
		if !(d.Succs[0].Dominates(b) || d.Succs[1].Dominates(b)) {
			continue
		}
		if valueDependsOnCall(ifi.Cond, decimalPkg, "Exponent", map[ssa.Value]bool{}) {
			return true
		}
	}
	return false
}

// valueDependsOnCall: does v (transitively through operands, and through static module callees'
// return values) depend on a call to pkg.<name>?
func valueDependsOnCall(v ssa.Value, pkg, name string, seen map[ssa.Value]bool) bool {
	if v == nil || seen[v] {
		return false
	}
	seen[v] = true
	if call, ok := v.(*ssa.Call); ok {
		cal := call.Common().StaticCallee()
		if cal != nil {
			if cal.Pkg != nil && cal.Pkg.Pkg.Path() == pkg && cal.Name() == name {
				return true
			}
			if inModule(cal) {
				// look into the callee's returned values
				for _, b := range cal.Blocks {
					for _, ins := range b.Instrs {
						if r, ok := ins.(*ssa.Return); ok {
							for _, rv := range r.Results {
								if valueDependsOnCall(rv, pkg, name, seen) {
									return true
								}
							}
						}
					}
				}
			}
		}
	}
	if ins, ok := v.(ssa.Instruction); ok {
		for _, op := range ins.Operands(nil) {
			if op != nil && *op != nil && valueDependsOnCall(*op, pkg, name, seen) {
				return true
			}
		}
	}
	return false
}

// ruleDecimalExponent (D-EXPONENT): a decimal.NewFromString result that is stored into the AST must
// first pass a test of its Exponent(); otherwise "1E9999999" makes every later sum rescale to
// 10^|exp| digits (seconds to minutes, or memory exhaustion).
func ruleDecimalExponent(c *Ctx) {
	n := 0
	for _, f := range c.P.ModuleFuncs() {
		for _, b := range f.Blocks {
			for _, ins := range b.Instrs {
				call, ok := ins.(*ssa.Call)
				if !ok {
					continue
				}
				cal := call.Common().StaticCallee()
				if cal == nil || cal.Pkg == nil || cal.Pkg.Pkg.Path() != decimalPkg || cal.Name() != "NewFromString" {
					continue
				}
				n++
				// find the store of the extracted decimal into a field (or its return)
				guarded := false
				stored := false
				for _, ref := range *call.Referrers() {
					ex, ok := ref.(*ssa.Extract)
					if !ok || ex.Index != 0 {
						continue
					}
					for _, r2 := range *ex.Referrers() {
						switch u := r2.(type) {
						case *ssa.Store:
							if u.Val == ex {
								stored = true
								if blockDominatedByCondOn(u.Block(), ex, "Exponent") {
									guarded = true
								}
							}
						case *ssa.Return:
							// handed back by a helper (qty, err := parseQuantityText(...)): judged where the caller stores
							// it - the sink clause below follows the value through the call
							if blockDominatedByCondOn(u.Block(), ex, "Exponent") {
								stored, guarded = true, true
							}
						}
					}
				}
				if !stored {
					c.ok("D-EXPONENT", funcName(f), "decimal.NewFromString", call.Pos(), "result is not stored")
					continue
				}
				c.check(guarded, "D-EXPONENT", funcName(f), "decimal.NewFromString", call.Pos(),
					"parsed quantity passes an Exponent() bound before it enters the syntax tree",
					"decimal.NewFromString result is stored into the syntax tree without a bound on its Exponent(): an amount like 1E9999999 makes the balance check materialise 10^9999999")
				if guarded {
					// the bound is two-sided: decimal arithmetic rescales to the smaller exponent, so 1E-30000000 is as
					// expensive to add, compare and print as 1E30000000
					upper, lower := false, false
					for _, ref := range *call.Referrers() {
						ex, ok := ref.(*ssa.Extract)
						if !ok || ex.Index != 0 {
							continue
						}
						// the quantity under the names it has in predicates it is handed to (exponentInRange(qty))
						alias := map[ssa.Value]bool{ex: true}
						for _, r2 := range *ex.Referrers() {
							if c2, ok := r2.(*ssa.Call); ok {
								if cal2 := c2.Call.StaticCallee(); cal2 != nil && inModule(cal2) {
									for i, a := range c2.Call.Args {
										if a == ssa.Value(ex) && i < len(cal2.Params) {
											alias[cal2.Params[i]] = true
										}
									}
								}
							}
						}
						// the exponent itself under the names it has where it is handed on (exponentInRange(qty.Exponent()))
						expVals := map[ssa.Value]bool{}
						for _, bb := range f.Blocks {
							for _, in2 := range bb.Instrs {
								c2, ok := in2.(*ssa.Call)
								if !ok {
									continue
								}
								if cal2 := c2.Call.StaticCallee(); cal2 != nil && cal2.Name() == "Exponent" && len(c2.Call.Args) > 0 && alias[c2.Call.Args[0]] {
									expVals[c2] = true
								}
							}
						}
						for _, bb := range f.Blocks {
							for _, in2 := range bb.Instrs {
								c2, ok := in2.(*ssa.Call)
								if !ok {
									continue
								}
								if cal2 := c2.Call.StaticCallee(); cal2 != nil && inModule(cal2) {
									for i, a := range c2.Call.Args {
										if expVals[stripConv(a)] && i < len(cal2.Params) {
											expVals[cal2.Params[i]] = true
											alias[cal2.Params[i]] = true // its function's comparisons are looked at below
										}
									}
								}
							}
						}
						onAlias := func(x ssa.Value) bool {
							if expVals[stripConv(x)] {
								return true
							}
							for a := range alias {
								if condCallsOn(x, a, "Exponent", map[ssa.Value]bool{}) || sliceCallsOn(x, a, "Exponent") {
									return true
								}
							}
							return false
						}
						// comparisons to look at: those in the conditions of this function, and every comparison inside a
						// predicate the quantity is handed to
						var cmps []*ssa.BinOp
						for _, bb := range f.Blocks {
							ifi, ok := lastInstr(bb).(*ssa.If)
							if !ok {
								continue
							}
							for w := range backSlice(ifi.Cond) {
								if bo, ok := w.(*ssa.BinOp); ok {
									cmps = append(cmps, bo)
								}
							}
						}
						for a := range alias {
							if prm, ok := a.(*ssa.Parameter); ok {
								for _, bb := range prm.Parent().Blocks {
									for _, in2 := range bb.Instrs {
										if bo, ok := in2.(*ssa.BinOp); ok {
											cmps = append(cmps, bo)
										}
									}
								}
							}
						}
						{
							for _, bo := range cmps {
								onX := onAlias(bo.X)
								onY := onAlias(bo.Y)
								if !onX && !onY {
									continue
								}
								op := bo.Op
								if onY && !onX {
									switch op {
									case token.LSS:
										op = token.GTR
									case token.LEQ:
										op = token.GEQ
									case token.GTR:
										op = token.LSS
									case token.GEQ:
										op = token.LEQ
									}
								}
								// a transformed exponent (abs, negation) on the compared side bounds both directions
								side := stripConv(map[bool]ssa.Value{true: bo.X, false: bo.Y}[onX])
								_, direct := side.(*ssa.Call)
								if expVals[side] {
									direct = true
								}
								if !direct {
									upper, lower = true, true
								}
								switch op {
								case token.GTR, token.GEQ:
									upper = true
								case token.LSS, token.LEQ:
									lower = true
								}
							}
						}
					}
					c.check(upper && lower, "D-EXPONENT", funcName(f), "the exponent bound is two-sided", call.Pos(),
						"the parsed quantity's exponent is bounded from above and from below",
						"the exponent of a parsed quantity is bounded on one side only: decimal arithmetic rescales both operands to the smaller exponent, so an amount like 1E-30000000 makes every sum, comparison and rendering materialise 10^30000000 just as 1E30000000 would")
				}
			}
		}
	}
	c.census("D-EXPONENT", "decimal.NewFromString calls", n, 1)
	// sink first: whatever is stored into the quantity of a syntax-tree amount is a value whose exponent was bounded -
	// a parsed value behind a test of its own Exponent(), possibly negated; a value rescaled after the test (Shift,
	// Mul, Pow, Div ...) is not bounded by it
	preserving := map[string]bool{"Neg": true, "Abs": true, "Copy": true}
	var bounded func(v ssa.Value, at *ssa.BasicBlock, seen map[ssa.Value]bool) (bool, string)
	bounded = func(v ssa.Value, at *ssa.BasicBlock, seen map[ssa.Value]bool) (bool, string) {
		if seen[v] {
			return true, ""
		}
		seen[v] = true
		for _, cc := range controlCondsPol(at) {
			if condCallsOn(cc.Cond, v, "Exponent", map[ssa.Value]bool{}) {
				return true, ""
			}
		}
		switch x := v.(type) {
		case *ssa.Phi:
			for _, e := range x.Edges {
				if ok, why := bounded(e, at, seen); !ok {
					return false, why
				}
			}
			return true, ""
		case *ssa.Call:
			cal := x.Common().StaticCallee()
			if cal != nil && cal.Pkg != nil && cal.Pkg.Pkg.Path() == decimalPkg {
				if preserving[cal.Name()] && len(x.Common().Args) > 0 {
					return bounded(x.Common().Args[0], at, seen)
				}
				switch cal.Name() {
				case "NewFromInt", "NewFromInt32":
					return true, ""
				}
				return false, "the result of decimal." + cal.Name()
			}
			if cal != nil && inModule(cal) && cal.Blocks != nil {
				for _, b := range cal.Blocks {
					for _, ins := range b.Instrs {
						if r, ok := ins.(*ssa.Return); ok {
							for _, rv := range r.Results {
								if types.TypeString(rv.Type(), nil) != decimalPkg+".Decimal" {
									continue
								}
								if ok, why := bounded(rv, b, seen); !ok {
									return false, why
								}
							}
						}
					}
				}
				return true, ""
			}
		case *ssa.Extract:
			if call, ok := x.Tuple.(*ssa.Call); ok {
				if cal := call.Common().StaticCallee(); cal != nil && inModule(cal) && cal.Blocks != nil {
					for _, b := range cal.Blocks {
						for _, ins := range b.Instrs {
							if r, ok := ins.(*ssa.Return); ok && x.Index < len(r.Results) {
								if k, isConst := r.Results[x.Index].(*ssa.Const); isConst && k.Value == nil {
									continue
								}
								if ok, why := bounded(r.Results[x.Index], b, seen); !ok {
									return false, why
								}
							}
						}
					}
					return true, ""
				}
			}
			return false, "a parsed value whose Exponent() is not tested on the way"
		case *ssa.UnOp:
			if x.Op == token.MUL {
				if g, ok := x.X.(*ssa.Global); ok && g.Pkg != nil && g.Pkg.Pkg.Path() == decimalPkg {
					return true, "" // decimal.Zero
				}
				if al, ok := x.X.(*ssa.Alloc); ok && al.Referrers() != nil {
					for _, r := range *al.Referrers() {
						if st, ok := r.(*ssa.Store); ok && st.Addr == ssa.Value(al) {
							if ok, why := bounded(st.Val, st.Block(), seen); !ok {
								// the test may also sit between the store into the variable and its use
								return false, why
							}
						}
					}
					return true, ""
				}
			}
		case *ssa.Const:
			return true, ""
		}
		return false, "a value the rule cannot trace to a parsed number with a tested exponent"
	}
	ns := 0
	for _, f := range c.P.ModuleFuncs() {
		if f.Pkg != c.P.SSAPkg("internal/parser") && (f.Parent() == nil || f.Parent().Pkg != c.P.SSAPkg("internal/parser")) {
			continue
		}
		for _, b := range f.Blocks {
			for _, ins := range b.Instrs {
				st, ok := ins.(*ssa.Store)
				if !ok || types.TypeString(st.Val.Type(), nil) != decimalPkg+".Decimal" {
					continue
				}
				fa, ok := st.Addr.(*ssa.FieldAddr)
				if !ok || !strings.Contains(types.TypeString(fa.X.Type(), nil), "/internal/ast.") {
					continue
				}
				ns++
				ok2, why := bounded(st.Val, b, map[ssa.Value]bool{})
				c.check(ok2, "D-EXPONENT", funcName(f), "quantity stored into the syntax tree", st.Pos(),
					"the stored quantity is a parsed value behind a test of its own Exponent() (sign changes aside)",
					"the quantity stored into the syntax tree is "+why+": the exponent bound was not applied to this value, so a document can make every later sum materialise a power of ten of its choosing")
			}
		}
	}
	c.census("D-EXPONENT", "quantities stored into the syntax tree by the parser", ns, 1)
}

// blockDominatedByCondOn: block b is dominated by a branch whose condition depends on a call to
// method `name` with receiver (or argument) derived from v.
func blockDominatedByCondOn(b *ssa.BasicBlock, v ssa.Value, name string) bool {
	for d := b.Idom(); d != nil; d = d.Idom() {
		if len(d.Instrs) == 0 {
			continue
		}
		ifi, ok := d.Instrs[len(d.Instrs)-1].(*ssa.If)
		if !ok {
			continue
		}
		if condCallsOn(ifi.Cond, v, name, map[ssa.Value]bool{}) {
			return true
		}
	}
	return false
}

func condCallsOn(c ssa.Value, v ssa.Value, name string, seen map[ssa.Value]bool) bool {
	if c == nil || seen[c] {
		return false
	}
	seen[c] = true
	if call, ok := c.(*ssa.Call); ok {
		cal := call.Common().StaticCallee()
		if cal != nil && cal.Name() == name {
			for _, a := range call.Common().Args {
				if a == v {
					return true
				}
			}
		}
		if cal != nil && inModule(cal) {
			// helper taking the value: look for name(...) on the corresponding parameter
			for i, a := range call.Common().Args {
				if a == v && i < len(cal.Params) {
					for _, bb := range cal.Blocks {
						for _, ins := range bb.Instrs {
							if c2, ok := ins.(*ssa.Call); ok {
								if cc := c2.Common().StaticCallee(); cc != nil && cc.Name() == name {
									for _, a2 := range c2.Common().Args {
										if a2 == cal.Params[i] {
											return true
										}
									}
								}
							}
						}
					}
				}
			}
		}
	}
	if ins, ok := c.(ssa.Instruction); ok {
		for _, op := range ins.Operands(nil) {
			if op != nil && *op != nil && condCallsOn(*op, v, name, seen) {
				return true
			}
		}
	}
	return false
}

var _ = token.NoPos

// ruleNumberSign (N-SIGN): the amount parser prepends the sign to the digit string BEFORE separator
// normalisation (checked on SSA: the normaliser's argument depends on a concatenation with the constant
// "-").  Under that precondition every zero / non-zero digit test the normaliser (or a helper it hands a
// prefix of the string to) applies must treat the sign character as neutral, otherwise "-0.125" and
// "0.125" are classified differently (one dot + three digits: group mark or decimal mark?) and the verdict
// depends on sign placement.
func ruleNumberSign(c *Ctx) {
	ppk := c.P.SSAPkg("internal/parser")
	var norm *ssa.Function
	var normCall *ssa.Call
	for _, f := range c.P.ModuleFuncs() {
		if f.Pkg != ppk {
			continue
		}
		for _, call := range findCalls(f, func(cal *ssa.Function) bool {
			return cal.Pkg != nil && cal.Pkg.Pkg.Path() == decimalPkg && cal.Name() == "NewFromString"
		}) {
			for v := range backSlice(call.Common().Args[0]) {
				if nc, ok := v.(*ssa.Call); ok {
					if cal := nc.Common().StaticCallee(); cal != nil && cal.Pkg == ppk && cal.Signature.Params().Len() == 1 && cal.Signature.Results().Len() == 1 &&
						types.TypeString(cal.Signature.Params().At(0).Type(), nil) == "string" && types.TypeString(cal.Signature.Results().At(0).Type(), nil) == "string" && len(cal.Blocks) > 3 {
						norm, normCall = cal, nc
					}
				}
			}
		}
	}
	if norm == nil {
		c.undecided("N-SIGN", "parser", "number normaliser", token.NoPos, "no string->string normaliser feeding decimal.NewFromString found")
		return
	}
	signed := false
	signs := map[byte]bool{} // the sign characters that can stand in front of the digits
	for v := range backSlice(normCall.Common().Args[0]) {
		if bin, ok := v.(*ssa.BinOp); ok && bin.Op == token.ADD {
			for _, op := range []ssa.Value{bin.X, bin.Y} {
				if k, ok := op.(*ssa.Const); ok && k.Value != nil && k.Value.Kind() == constant.String && constant.StringVal(k.Value) == "-" {
					signed = true
					signs['-'] = true
				}
			}
			// a prefix that is not a constant: the text of the sign token.  It is recognised by a test of that very
			// value against a string constant among the conditions of the concatenation; `== "-"` fixes the sign,
			// any other test (`!= ""`) lets every sign the lexer knows through.
			if _, isK := bin.X.(*ssa.Const); !isK && types.TypeString(bin.X.Type().Underlying(), nil) == "string" {
				tested := false
				var fixed []string
				for _, cc := range append(controlCondsPol(bin.Block()), controlDeps(bin.Block())...) {
					bo, ok := cc.Cond.(*ssa.BinOp)
					if !ok || (bo.Op != token.EQL && bo.Op != token.NEQ) {
						continue
					}
					var k *ssa.Const
					switch {
					case stripConv(bo.X) == stripConv(bin.X):
						k, _ = bo.Y.(*ssa.Const)
					case stripConv(bo.Y) == stripConv(bin.X):
						k, _ = bo.X.(*ssa.Const)
					}
					if k == nil || k.Value == nil || k.Value.Kind() != constant.String {
						continue
					}
					tested = true
					if sv := constant.StringVal(k.Value); sv != "" && ((bo.Op == token.EQL && cc.Taken) || (bo.Op == token.NEQ && !cc.Taken)) {
						fixed = append(fixed, sv)
					}
				}
				if tested {
					signed = true
					if len(fixed) == 0 {
						fixed = []string{"-", "+"}
					}
					for _, sv := range fixed {
						signs[sv[0]] = true
					}
				}
			}
		}
	}
	nname := funcName(norm)
	if !signed {
		c.ok("N-SIGN", nname, "sign handling in the number normaliser", norm.Pos(), "the sign is not part of the string handed to the normaliser")
		return
	}
	// AST walk over the normaliser and the module helpers it passes (a prefix of) its string to
	pk := c.P.ByRel["internal/parser"]
	info := pk.TypesInfo
	var start *ast.FuncDecl
	for obj, fd := range c.P.declOf {
		if obj.Pkg() == pk.Types && obj.Name() == norm.Name() && fd.Recv == nil {
			start = fd
		}
	}
	if start == nil {
		c.undecided("N-SIGN", nname, "declaration", token.NoPos, "declaration of the normaliser not found")
		return
	}
	seen := map[*ast.FuncDecl]bool{}
	n := 0
	var visit func(fd *ast.FuncDecl, depth int)
	visit = func(fd *ast.FuncDecl, depth int) {
		if seen[fd] || depth > 3 {
			return
		}
		seen[fd] = true
		fname := c.P.declName(fd)
		mentionsSign := func(e ast.Node) bool {
			all := true
			for ch := range signs {
				found := false
				ast.Inspect(e, func(x ast.Node) bool {
					if bl, ok := x.(*ast.BasicLit); ok {
						if bl.Kind == token.CHAR && bl.Value == "'"+string(ch)+"'" {
							found = true
						}
						if bl.Kind == token.STRING && strings.Contains(bl.Value, string(ch)) {
							found = true
						}
					}
					return true
				})
				if !found {
					all = false
				}
			}
			return all
		}
		signList := ""
		for _, ch := range []byte{'-', '+'} {
			if signs[ch] {
				signList += "'" + string(ch) + "' "
			}
		}
		// conditions that compare a byte with '0'
		var conds []ast.Expr
		ast.Inspect(fd.Body, func(x ast.Node) bool {
			switch s := x.(type) {
			case *ast.IfStmt:
				conds = append(conds, s.Cond)
			case *ast.ForStmt:
				if s.Cond != nil {
					conds = append(conds, s.Cond)
				}
			case *ast.ReturnStmt:
				for _, r := range s.Results {
					conds = append(conds, r)
				}
			case *ast.AssignStmt:
				for _, r := range s.Rhs {
					if t := info.TypeOf(r); t != nil && types.TypeString(t, nil) == "bool" {
						conds = append(conds, r)
					}
				}
			case *ast.CaseClause:
				conds = append(conds, s.List...)
			}
			return true
		})
		for _, cond := range conds {
			zeroTest := false
			ast.Inspect(cond, func(x ast.Node) bool {
				switch e := x.(type) {
				case *ast.BinaryExpr:
					if e.Op == token.EQL || e.Op == token.NEQ {
						for _, side := range []ast.Expr{e.X, e.Y} {
							if bl, ok := ast.Unparen(side).(*ast.BasicLit); ok && bl.Kind == token.CHAR && bl.Value == "'0'" {
								zeroTest = true
							}
						}
					}
				case *ast.CallExpr:
					q := qualName(calleeOf(info, e))
					if strings.HasPrefix(q, "strings.Trim") && len(e.Args) == 2 {
						if s, ok := stringConst(info, e.Args[1]); ok && strings.Contains(s, "0") {
							zeroTest = true
						}
					}
				}
				return true
			})
			if !zeroTest {
				continue
			}
			n++
			c.check(mentionsSign(cond), "N-SIGN", fname, "zero-digit test ignores the sign", cond.Pos(),
				"the test that decides whether the integer part is only zeros also skips '-' (`"+exprStr(c.P.Fset, cond)+"`)",
				"the amount parser can prepend a sign ("+strings.TrimSpace(signList)+") to the digits before normalising, but this test of the integer part (`"+exprStr(c.P.Fset, cond)+"`) treats one of them as a significant digit: \"-0.125\" / \"+0.125\" is read as 125 while \"0.125\" stays 0.125, so the balance verdict depends on the sign")
		}
		// helpers that receive the string or a prefix of it
		ast.Inspect(fd.Body, func(x ast.Node) bool {
			call, ok := x.(*ast.CallExpr)
			if !ok {
				return true
			}
			if fn, ok := calleeOf(info, call).(*types.Func); ok && fn.Pkg() == pk.Types {
				if d := c.P.declOf[fn]; d != nil && d != fd {
					for _, a := range call.Args {
						if t := info.TypeOf(a); t != nil {
							switch types.TypeString(t.Underlying(), nil) {
							case "string", "byte", "uint8", "rune", "int32", "[]byte":
								visit(d, depth+1)
							}
						}
					}
				}
			}
			// a module predicate handed to a library scanner (strings.ContainsFunc, IndexFunc, ...) is applied to
			// the characters of the string
			for _, a := range call.Args {
				if fn, ok := info.Uses[identOf(a)].(*types.Func); ok && fn.Pkg() == pk.Types {
					if d := c.P.declOf[fn]; d != nil && d != fd {
						visit(d, depth+1)
					}
				}
			}
			return true
		})
	}
	visit(start, 0)
	c.census("N-SIGN", "zero-digit tests in the number normaliser", n, 1)
}

// ruleBalanceReal (B-REAL): the balance check looks at real postings only: every read of a posting's amount below
// the balance check is made on a posting taken from a list that passed the virtual-posting filter, or is itself
// control dependent on a test of that posting's Virtual field (an unbalanced-virtual posting without an amount
// is not "the posting whose amount is inferred").
func ruleBalanceReal(c *Ctx) {
	apk := c.P.SSAPkg("internal/analyzer")
	ci := buildConc(c)
	var entry *ssa.Function
	for _, f := range c.P.ModuleFuncs() {
		if f.Pkg != apk || f.Signature.Recv() != nil || f.Signature.Params().Len() != 1 || f.Signature.Results().Len() != 1 {
			continue
		}
		if typeHasSuffix(f.Signature.Params().At(0).Type(), "ast.Transaction") && typeHasSuffix(f.Signature.Results().At(0).Type(), "analyzer.BalanceResult") {
			entry = f
		}
	}
	if entry == nil {
		c.undecided("B-REAL", "analyzer", "balance check", token.NoPos, "function (*ast.Transaction) *BalanceResult not found")
		return
	}
	readsVirtual := func(cond ssa.Value) bool {
		for v := range backSlice(cond) {
			switch x := v.(type) {
			case *ssa.FieldAddr:
				if typeHasSuffix(x.X.Type(), "ast.Posting") && fieldVarOfAddr(x).Name() == "Virtual" {
					return true
				}
			case *ssa.Field:
				if st, ok := x.X.Type().Underlying().(*types.Struct); ok && typeHasSuffix(x.X.Type(), "ast.Posting") && st.Field(x.Field).Name() == "Virtual" {
					return true
				}
			}
		}
		return false
	}
	// a condition that calls a predicate handed in as a parameter (`keep(item)` in a generic filter helper): the
	// predicates passed at the helper's call sites read Virtual
	basicReadsVirtual := readsVirtual
	readsVirtual = func(cond ssa.Value) bool {
		if basicReadsVirtual(cond) {
			return true
		}
		for v := range backSlice(cond) {
			call, ok := v.(*ssa.Call)
			if !ok || call.Call.IsInvoke() {
				continue
			}
			q, ok := call.Call.Value.(*ssa.Parameter)
			if !ok {
				continue
			}
			g := q.Parent()
			idx := -1
			for i, pp := range g.Params {
				if pp == q {
					idx = i
				}
			}
			target := g
			if o := g.Origin(); o != nil {
				target = o
			}
			for _, site := range (cgView{c}).callersOf(target) {
				if idx < 0 || idx >= len(site.Common().Args) {
					continue
				}
				if fn := resolveLocalFunc(site.Common().Args[idx]); fn != nil {
					for _, b := range fn.Blocks {
						for _, ins := range b.Instrs {
							if r, ok := ins.(*ssa.Return); ok && len(r.Results) == 1 && basicReadsVirtual(r.Results[0]) {
								return true
							}
						}
					}
				}
			}
		}
		return false
	}
	// filters: functions returning []ast.Posting whose appends depend on a test of Virtual
	filters := map[*ssa.Function]bool{}
	for _, f := range c.P.ModuleFuncs() {
		if f.Pkg != apk || f.Signature.Results().Len() != 1 {
			continue
		}
		sl, ok := f.Signature.Results().At(0).Type().Underlying().(*types.Slice)
		if !ok || !typeHasSuffix(sl.Elem(), "ast.Posting") {
			continue
		}
		for _, b := range f.Blocks {
			for _, ins := range b.Instrs {
				if call, ok := ins.(*ssa.Call); ok {
					if bi, ok := call.Call.Value.(*ssa.Builtin); ok && bi.Name() == "append" {
						for _, cc := range controlDeps(b) {
							if readsVirtual(cc.Cond) {
								filters[f] = true
							}
						}
					}
				}
			}
		}
	}
	reach := Reach(ci.g, []*ssa.Function{entry}, true)
	n := 0
	for _, f := range c.P.ModuleFuncs() {
		if !reach[f] || f.Pkg != apk || filters[f] {
			continue
		}
		for _, b := range f.Blocks {
			for _, ins := range b.Instrs {
				var base ssa.Value
				switch x := ins.(type) {
				case *ssa.FieldAddr:
					if typeHasSuffix(x.X.Type(), "ast.Posting") && fieldVarOfAddr(x).Name() == "Amount" {
						base = x.X
					}
				case *ssa.Field:
					if st, ok := x.X.Type().Underlying().(*types.Struct); ok && typeHasSuffix(x.X.Type(), "ast.Posting") && st.Field(x.Field).Name() == "Amount" {
						base = x.X
					}
				}
				if base == nil {
					continue
				}
				n++
				ok := false
				for v := range sliceUpN(ci, base, f, 4) {
					call, isCall := v.(*ssa.Call)
					if !isCall {
						continue
					}
					if filters[call.Call.StaticCallee()] {
						ok = true
					}
					// the filtered list built in place: an append that is control dependent on a test of Virtual
					if bi, isB := call.Call.Value.(*ssa.Builtin); isB && bi.Name() == "append" {
						for _, cc := range controlDeps(call.Block()) {
							if readsVirtual(cc.Cond) {
								ok = true
							}
						}
					}
					// a filtering iterator / visitor: the callback is invoked only behind a test of Virtual
					if _, isParam := call.Call.Value.(*ssa.Parameter); isParam && !call.Call.IsInvoke() {
						for _, cc := range controlDeps(call.Block()) {
							if readsVirtual(cc.Cond) {
								ok = true
							}
						}
					}
				}
				if !ok {
					for _, cc := range controlDeps(b) {
						if readsVirtual(cc.Cond) {
							ok = true
						}
					}
				}
				c.check(ok, "B-REAL", funcName(f), "amount read on a real posting", ins.Pos(),
					"the posting comes from the filtered list of real postings, or the read is behind a test of its Virtual field",
					"the balance check reads the amount of a posting that has not passed the virtual-posting filter: an unbalanced-virtual posting without an amount is counted as the inferred one (or a second inferred one), so an unbalanced transaction is accepted or a valid one rejected")
			}
		}
	}
	c.census("B-REAL", "reads of a posting's amount below the balance check", n, 2)
}

// sliceCallsOn: the value's local backward slice contains a call of method `name` on v.
func sliceCallsOn(x ssa.Value, v ssa.Value, name string) bool {
	for w := range backSlice(x) {
		if call, ok := w.(*ssa.Call); ok {
			if cal := call.Common().StaticCallee(); cal != nil && cal.Name() == name {
				for _, a := range call.Common().Args {
					if a == v {
						return true
					}
				}
			}
		}
	}
	return false
}
