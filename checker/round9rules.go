package main

import (
	"fmt"
	"go/token"
	"go/types"
	"sort"
	"strings"

	"golang.org/x/tools/go/ssa"
)

// ruleLimitsApplied (C19-LIMITS): the configured include limits reach the loader on every settings update.  The
// call of Loader.SetLimits on the update path is not control dependent on a comparison of the limits themselves
// (a "only tell the loader about non-default limits" short cut never tells it about a change back to the
// defaults); a nil test of the loader is all that may stand in front of it.
func ruleLimitsApplied(c *Ctx) {
	n := 0
	for _, f := range c.P.ModuleFuncs() {
		for _, b := range f.Blocks {
			for _, ins := range b.Instrs {
				call, ok := ins.(ssa.CallInstruction)
				if !ok {
					continue
				}
				cal := call.Common().StaticCallee()
				if cal == nil || cal.Name() != "SetLimits" || cal.Signature.Recv() == nil || !typeHasSuffix(cal.Signature.Recv().Type(), "include.Loader") {
					continue
				}
				n++
				bad := ""
				for _, cc := range append(controlCondsPol(b), controlDeps(b)...) {
					for w := range backSlice(cc.Cond) {
						t := w.Type()
						if pt, ok := t.Underlying().(*types.Pointer); ok {
							t = pt.Elem()
						}
						if typeHasSuffix(t, "include.Limits") {
							bad = c.P.pos(cc.Cond.Pos())
						}
						switch x := w.(type) {
						case *ssa.FieldAddr:
							if typeHasSuffix(x.X.Type(), "include.Limits") {
								bad = c.P.pos(cc.Cond.Pos())
							}
						case *ssa.Field:
							if typeHasSuffix(x.X.Type(), "include.Limits") {
								bad = c.P.pos(cc.Cond.Pos())
							}
						}
					}
				}
				c.check(bad == "", "C19-LIMITS", funcName(f), "the loader is told the limits on every update", ins.Pos(),
					"the call of SetLimits does not depend on the values of the limits",
					"whether the include loader is told the configured limits depends on the limits themselves (condition at "+bad+"): after a non-default value has reached the loader, a change back to the compared value is stored in the settings but never reaches the loader - the recognised value does not take effect")
			}
		}
	}
	c.census("C19-LIMITS", "calls of Loader.SetLimits", n, 1)
}

// ruleFixpointFlag (C12-FIXFLAG): the boolean that keeps the include-tree fixpoint going accumulates.  In a
// function whose boolean result is (part of) the continue condition of the refresh loop, the result is only ever set
// to true or kept inside a loop - an assignment of a fresh verdict (`added = len(includes) > 0`) lets the last
// element decide for all of them, and files reachable only through an earlier one are never loaded.
func ruleFixpointFlag(c *Ctx) {
	wpk := c.P.SSAPkg("internal/workspace")
	n := 0
	for _, f := range c.P.ModuleFuncs() {
		if f.Pkg != wpk || f.Parent() != nil || f.Signature.Recv() == nil || !typeHasSuffix(f.Signature.Recv().Type(), "workspace.Workspace") {
			continue
		}
		// a non-range `for` whose body calls methods on the receiver with a bool result used to leave/continue
		for _, b := range f.Blocks {
			for _, ins := range b.Instrs {
				call, ok := ins.(*ssa.Call)
				if !ok || !inCycle(b) {
					continue
				}
				cal := call.Call.StaticCallee()
				if cal == nil || cal.Pkg != wpk || cal.Signature.Results().Len() != 1 || cal.Blocks == nil {
					continue
				}
				if bt, ok := cal.Signature.Results().At(0).Type().Underlying().(*types.Basic); !ok || bt.Kind() != types.Bool {
					continue
				}
				// the result decides whether the loop goes on
				decides := false
				for _, bb := range f.Blocks {
					if ifi, ok := lastInstr(bb).(*ssa.If); ok && inCycle(bb) && backSlice(ifi.Cond)[ssa.Value(call)] {
						decides = true
					}
				}
				if !decides {
					continue
				}
				// inside the callee: loop-header phis that reach the returned value
				for _, cb := range cal.Blocks {
					for _, ci := range cb.Instrs {
						phi, ok := ci.(*ssa.Phi)
						if !ok {
							break
						}
						if !inCycle(cb) {
							continue
						}
						if bt, ok := phi.Type().Underlying().(*types.Basic); !ok || bt.Kind() != types.Bool {
							continue
						}
						returned := false
						for _, rb := range cal.Blocks {
							if r, ok := lastInstr(rb).(*ssa.Return); ok && len(r.Results) == 1 && backSlice(r.Results[0])[ssa.Value(phi)] {
								returned = true
							}
						}
						if !returned {
							continue
						}
						n++
						bad := ""
						var okEdge func(e ssa.Value, depth int) bool
						okEdge = func(e ssa.Value, depth int) bool {
							if depth > 4 {
								return false
							}
							switch x := e.(type) {
							case *ssa.Const:
								return x.Value != nil && x.Value.String() == "true"
							case *ssa.Phi:
								if x == phi {
									return true
								}
								for _, e2 := range x.Edges {
									if !okEdge(e2, depth+1) {
										return false
									}
								}
								return true
							}
							return false
						}
						for i, e := range phi.Edges {
							if i < len(cb.Preds) && reachesBlock(cb, cb.Preds[i]) && !okEdge(e, 0) {
								bad = c.P.pos(e.Pos())
								if bad == "" || bad == "-" {
									bad = c.P.pos(phi.Pos())
								}
							}
						}
						name := phi.Comment
						if name == "" {
							name = phi.Name()
						}
						c.check(bad == "", "C12-FIXFLAG", funcName(cal), "the fixpoint flag "+name+" accumulates", phi.Pos(),
							"inside the loop the flag is only set to true or kept",
							"the flag "+name+" that keeps the include-tree fixpoint going is overwritten inside the loop with a fresh verdict: the last element decides for all, so after an update that makes several files reachable at once the files reachable only through an earlier one are never loaded and the incremental view lacks them")
					}
				}
			}
		}
	}
	c.note("C12-FIXFLAG: %d loop-carried result flags of fixpoint helpers", n)
}

// ruleDeltaEmpty (T12-EQ): "nothing changed" is answered only when nothing changed.  In a function that computes
// semantic-token edits from the cached and the new array, a return of an empty edit list is reached only where the
// two lengths are provably equal (and the element comparison ran): with `len(new) <= len(old)` a new array that is
// a proper prefix of the old one is answered with no edits - the client keeps the deleted tail, and every later
// delta is computed against data the client does not have.
func ruleDeltaEmpty(c *Ctx) {
	n := 0
	for _, f := range c.P.ModuleFuncs() {
		if f.Signature.Results().Len() != 1 || !strings.HasSuffix(types.TypeString(f.Signature.Results().At(0).Type(), nil), "[]go.lsp.dev/protocol.SemanticTokensEdit") {
			continue
		}
		var arrs []*ssa.Parameter
		for _, p := range f.Params {
			if types.TypeString(p.Type(), nil) == "[]uint32" {
				arrs = append(arrs, p)
			}
		}
		if len(arrs) != 2 {
			continue
		}
		lp := newLinProver()
		lenOf := func(p *ssa.Parameter) lin {
			l := newLin()
			k := fmt.Sprintf("len(%s@%p)", p.Name(), p)
			lp.lc.leaf[k] = p
			l.t[k] = 1
			return l
		}
		a, b := lenOf(arrs[0]), lenOf(arrs[1])
		for _, blk := range f.Blocks {
			r, ok := lastInstr(blk).(*ssa.Return)
			if !ok || len(r.Results) != 1 || !emptySliceValue(r.Results[0]) {
				continue
			}
			n++
			eq := lp.prove(a.addScaled(b, -1), blk, nil, 0) && lp.prove(b.addScaled(a, -1), blk, nil, 0)
			c.check(eq, "T12-EQ", funcName(f), "an empty edit list is returned for arrays of equal length only", r.Pos(),
				"the two arrays provably have the same length where the empty list is returned",
				"the delta computation can answer 'no edits' although the cached and the new token array differ in length (the lengths are not shown equal at this return): a new array that is a proper prefix of the cached one leaves the client with the deleted tail, and later deltas are computed against data the client does not have")
		}
	}
	c.note("T12-EQ: %d returns of an empty edit list", n)
}

// emptySliceValue: a slice literal without elements, make(T, 0) or nil.
func emptySliceValue(v ssa.Value) bool {
	switch x := v.(type) {
	case *ssa.Const:
		return x.IsNil()
	case *ssa.MakeSlice:
		if k, ok := x.Len.(*ssa.Const); ok && k.Value != nil && k.Value.String() == "0" {
			return true
		}
	case *ssa.Slice:
		if al, ok := x.X.(*ssa.Alloc); ok {
			if pt, ok := al.Type().Underlying().(*types.Pointer); ok {
				if at, ok := pt.Elem().Underlying().(*types.Array); ok && at.Len() == 0 {
					return true
				}
			}
		}
	}
	return false
}

// ruleAssertionIndependent (T9-INDEP): the undeclared-commodity check looks at a posting's balance assertion
// whether or not the posting has an amount (`assets:bank  = 100 EUR` is an amount-less posting with an assertion):
// the read of `.BalanceAssertion` in the check is not control dependent on a nil test of `.Amount` or `.Cost`.
func ruleAssertionIndependent(c *Ctx) {
	// the check is found by its role (the function that builds the undeclared-commodity diagnostic), the region is
	// that function, what it calls and the functions of its package that lead to it from the one handed the
	// transaction
	fd := undeclaredCommodityCheck(c.P)
	var f *ssa.Function
	if fd != nil {
		f = c.P.ssaOf(fd)
	}
	if f == nil {
		c.undecided("T9-INDEP", "analyzer", "undeclared-commodity check", token.NoPos, "the function that builds the undeclared-commodity diagnostic was not found in package analyzer")
		return
	}
	n := 0
	cg := cgView{c}
	inRegion := map[*ssa.Function]bool{}
	var fns []*ssa.Function
	var addWithCallees func(g *ssa.Function, depth int)
	addWithCallees = func(g *ssa.Function, depth int) {
		if g == nil || inRegion[g] || depth > 2 || g.Blocks == nil {
			return
		}
		inRegion[g] = true
		fns = append(fns, g)
		for _, a := range g.AnonFuncs {
			addWithCallees(a, depth)
		}
		for _, b := range g.Blocks {
			for _, ins := range b.Instrs {
				if call, ok := ins.(*ssa.Call); ok {
					if cal := call.Call.StaticCallee(); cal != nil && inModule(cal) && cal.Pkg == f.Pkg {
						addWithCallees(cal, depth+1)
					}
				}
			}
		}
	}
	addWithCallees(f, 0)
	takesTx := func(g *ssa.Function) bool {
		for _, p := range g.Params {
			if typeHasSuffix(p.Type(), "ast.Transaction") {
				return true
			}
		}
		return false
	}
	for cur, depth := f, 0; !takesTx(cur) && depth < 3; depth++ {
		sites := cg.callersOf(cur)
		if len(sites) == 0 {
			break
		}
		up := sites[0].Parent()
		for up.Parent() != nil {
			up = up.Parent()
		}
		if up.Pkg != f.Pkg {
			break
		}
		addWithCallees(up, 1)
		cur = up
	}
	for _, fn := range fns {
		for _, b := range fn.Blocks {
			for _, ins := range b.Instrs {
				fa, ok := ins.(*ssa.FieldAddr)
				if !ok || !typeHasSuffix(fa.X.Type(), "ast.Posting") || fieldVarOfAddr(fa).Name() != "BalanceAssertion" {
					continue
				}
				n++
				bad := ""
				for _, cc := range controlCondsPol(b) {
					for w := range backSlice(cc.Cond) {
						if fa2, ok := w.(*ssa.FieldAddr); ok && typeHasSuffix(fa2.X.Type(), "ast.Posting") {
							if nm := fieldVarOfAddr(fa2).Name(); nm == "Amount" || nm == "Cost" {
								bad = nm
							}
						}
					}
				}
				c.check(bad == "", "T9-INDEP", funcName(fn), "the balance assertion is looked at whether or not the posting has an amount", fa.Pos(),
					"the read of the assertion does not depend on the posting's amount or cost",
					"the undeclared-commodity check reads a posting's balance assertion only when its "+bad+" is present: an amount-less posting that carries an assertion (`assets:bank  = 100 EUR`) is skipped, so an undeclared commodity used only there is never warned about")
			}
		}
	}
	c.census("T9-INDEP", "reads of a posting's balance assertion in the undeclared-commodity check", n, 1)
}

// ruleKeyBase (K-BASE): a map keyed by line numbers is keyed in one base.  Syntax-tree and token positions count
// lines from 1, protocol positions from 0; the error-line and posting-line sets of formatting are keyed 0-based
// (`Pos.Line - 1`).  For every map with integer keys the keys of all stores and lookups - through locals, struct
// fields and the values stored into them - are classified by the linear form of the key: `<1-based line> + c` is
// base 1 + c, `<protocol line> + c` is base c.  A map that is written in one base and read in another silently
// misses (the posting on the line *after* a syntax error is treated as the erroneous one).
func ruleKeyBase(c *Ctx) {
	type use struct {
		base int
		pos  token.Pos
		fn   *ssa.Function
		what string
	}
	parent := map[any]any{}
	var find func(x any) any
	find = func(x any) any {
		if p, ok := parent[x]; ok && p != x {
			r := find(p)
			parent[x] = r
			return r
		}
		return x
	}
	union := func(a, b any) {
		if a == nil || b == nil {
			return
		}
		ra, rb := find(a), find(b)
		if ra != rb {
			parent[ra] = rb
		}
	}
	idOf := func(v ssa.Value) any {
		v = stripConv(v)
		switch x := v.(type) {
		case *ssa.UnOp:
			if x.Op == token.MUL {
				switch a := x.X.(type) {
				case *ssa.FieldAddr:
					return fieldVarOfAddr(a)
				case *ssa.Alloc:
					return a
				}
			}
		case *ssa.Field:
			if st, ok := x.X.Type().Underlying().(*types.Struct); ok {
				return st.Field(x.Field)
			}
		case *ssa.MakeMap:
			return x
		case *ssa.Parameter:
			return x
		}
		return nil
	}
	isIntKeyMap := func(t types.Type) bool {
		mt, ok := t.Underlying().(*types.Map)
		return ok && isIntType(mt.Key())
	}
	lc := &linCtx{leaf: map[string]ssa.Value{}}
	classify := func(key ssa.Value) (int, bool) {
		e := lc.expr(key, 0)
		if len(e.t) != 1 {
			return 0, false
		}
		for k, co := range e.t {
			if co != 1 {
				return 0, false
			}
			v := lc.leaf[k]
			var fld *types.Var
			var owner types.Type
			switch x := v.(type) {
			case *ssa.UnOp:
				if fa, ok := x.X.(*ssa.FieldAddr); ok && x.Op == token.MUL {
					fld = fieldVarOfAddr(fa)
					owner = fa.X.Type().Underlying().(*types.Pointer).Elem()
				}
			case *ssa.Field:
				if st, ok := x.X.Type().Underlying().(*types.Struct); ok {
					fld = st.Field(x.Field)
					owner = x.X.Type()
				}
			}
			if fld == nil || fld.Name() != "Line" {
				return 0, false
			}
			ts := types.TypeString(owner, nil)
			switch {
			case strings.HasSuffix(ts, "internal/parser.Position") || strings.HasSuffix(ts, "internal/ast.Position"):
				return 1 + int(e.c), true
			case strings.HasSuffix(ts, "protocol.Position"):
				return int(e.c), true
			}
		}
		return 0, false
	}
	uses := map[any][]use{}
	var ids []any
	for _, f := range c.P.ModuleFuncs() {
		for _, b := range f.Blocks {
			for _, ins := range b.Instrs {
				switch x := ins.(type) {
				case *ssa.Store:
					if isIntKeyMap(x.Val.Type()) {
						var dst any
						switch a := x.Addr.(type) {
						case *ssa.FieldAddr:
							dst = fieldVarOfAddr(a)
						case *ssa.Alloc:
							dst = a
						}
						union(idOf(x.Val), dst)
					}
				case *ssa.MapUpdate:
					if isIntKeyMap(x.Map.Type()) {
						if id := idOf(x.Map); id != nil {
							if bse, ok := classify(x.Key); ok {
								uses[id] = append(uses[id], use{bse, x.Pos(), f, "store"})
								ids = append(ids, id)
							}
						}
					}
				case *ssa.Lookup:
					if isIntKeyMap(x.X.Type()) {
						if id := idOf(x.X); id != nil {
							if bse, ok := classify(x.Index); ok {
								uses[id] = append(uses[id], use{bse, x.Pos(), f, "lookup"})
								ids = append(ids, id)
							}
						}
					}
				}
			}
		}
	}
	// a map passed as an argument: parameter and argument are the same map
	for _, f := range c.P.ModuleFuncs() {
		for _, b := range f.Blocks {
			for _, ins := range b.Instrs {
				call, ok := ins.(ssa.CallInstruction)
				if !ok {
					continue
				}
				cal := call.Common().StaticCallee()
				if cal == nil || !inModule(cal) {
					continue
				}
				for i, a := range call.Common().Args {
					if i < len(cal.Params) && isIntKeyMap(a.Type()) {
						union(idOf(a), cal.Params[i])
					}
				}
			}
		}
	}
	classes := map[any][]use{}
	for id, us := range uses {
		r := find(id)
		classes[r] = append(classes[r], us...)
	}
	n := 0
	for _, us := range classes {
		count := map[int]int{}
		for _, u := range us {
			count[u.base]++
		}
		n += len(us)
		if len(count) <= 1 {
			continue
		}
		// the majority base is the map's base
		best, bestN := 0, -1
		for bse, k := range count {
			if k > bestN || (k == bestN && bse < best) {
				best, bestN = bse, k
			}
		}
		for _, u := range us {
			if u.base != best {
				c.finding("K-BASE", funcName(u.fn), fmt.Sprintf("line-keyed map %s in base %d", u.what, u.base), u.pos,
					fmt.Sprintf("a map keyed by line numbers is used with keys counted from %d here and from %d elsewhere (syntax-tree lines start at 1, the sets of error and posting lines are keyed from 0): the %s misses by one line - the posting after a syntax error is taken for the erroneous one, or a posting line is not recognised as such and is edited twice", u.base, best, u.what))
			}
		}
	}
	for _, us := range classes {
		if len(us) > 0 {
			ok := true
			b0 := us[0].base
			for _, u := range us {
				if u.base != b0 {
					ok = false
				}
			}
			if ok {
				c.ok("K-BASE", funcName(us[0].fn), fmt.Sprintf("line-keyed map used in base %d throughout (%d uses)", b0, len(us)), us[0].pos, "all stores and lookups of this map use keys in one base")
			}
		}
	}
	c.census("K-BASE", "stores and lookups of line-keyed maps with a classified key", n, 1)
}

// rulePayeeKey (I-PAYEEKEY): a transaction is filed under one name everywhere: its payee, or - when it has none -
// its description.  The collectors of payee names, payee counts and payee templates, the workspace index and the
// hover all derive that name themselves; wherever a value merges a transaction's Payee and Description (a phi of
// the two loads), the choice is made by a test of the Payee.  A collector that prefers the Description (`name :=
// tx.Description; if name == "" { name = tx.Payee }`) files `Grocery Store | weekly shopping` under the whole
// description: counts are stored under a key no label has, so frequently used payees rank as unused.
func rulePayeeKey(c *Ctx) {
	n := 0
	isTxField := func(v ssa.Value, name string) bool {
		ld, ok := stripConv(v).(*ssa.UnOp)
		if !ok || ld.Op != token.MUL {
			if fl, ok := stripConv(v).(*ssa.Field); ok && typeHasSuffix(fl.X.Type(), "ast.Transaction") {
				if st, ok := fl.X.Type().Underlying().(*types.Struct); ok {
					return st.Field(fl.Field).Name() == name
				}
			}
			return false
		}
		fa, ok := ld.X.(*ssa.FieldAddr)
		return ok && typeHasSuffix(fa.X.Type(), "ast.Transaction") && fieldVarOfAddr(fa).Name() == name
	}
	for _, f := range c.P.ModuleFuncs() {
		for _, b := range f.Blocks {
			for _, ins := range b.Instrs {
				phi, ok := ins.(*ssa.Phi)
				if !ok {
					break
				}
				hasP, hasD := false, false
				for _, e := range phi.Edges {
					if isTxField(e, "Payee") {
						hasP = true
					}
					if isTxField(e, "Description") {
						hasD = true
					}
				}
				if !hasP || !hasD {
					continue
				}
				n++
				// the branch that decides between the two: the nearest dominating If of the phi's block
				onPayee, onDesc := false, false
				for d := b.Idom(); d != nil; d = d.Idom() {
					ifi, ok := lastInstr(d).(*ssa.If)
					if !ok {
						continue
					}
					for w := range backSlice(ifi.Cond) {
						if isTxField(w, "Payee") {
							onPayee = true
						}
						if isTxField(w, "Description") {
							onDesc = true
						}
					}
					break
				}
				c.check(onPayee && !onDesc, "I-PAYEEKEY", funcName(f), "payee-or-description is decided by the payee", phi.Pos(),
					"the name a transaction is filed under is its payee unless the payee is empty",
					"a transaction's name is chosen between Payee and Description by a test that is not a test of the Payee alone: for `payee | note` transactions this collector files the transaction under another name than the collectors of labels, counts and templates do - counts and templates are stored under keys no completion label has")
			}
		}
	}
	// the same choice written as two returns of a helper (`if tx.Payee != "" { return tx.Payee }; return
	// tx.Description`): the merge is the function's result, the deciding branch the nearest one above both returns
	for _, f := range c.P.ModuleFuncs() {
		var bp, bd *ssa.BasicBlock
		for _, b := range f.Blocks {
			ret, ok := lastInstr(b).(*ssa.Return)
			if !ok || len(ret.Results) != 1 {
				continue
			}
			if isTxField(ret.Results[0], "Payee") {
				bp = b
			}
			if isTxField(ret.Results[0], "Description") {
				bd = b
			}
		}
		if bp == nil || bd == nil || bp == bd {
			continue
		}
		n++
		above := map[*ssa.BasicBlock]bool{}
		for d := bp.Idom(); d != nil; d = d.Idom() {
			above[d] = true
		}
		onPayee, onDesc := false, false
		for d := bd.Idom(); d != nil; d = d.Idom() {
			ifi, ok := lastInstr(d).(*ssa.If)
			if !ok || !above[d] {
				continue
			}
			for w := range backSlice(ifi.Cond) {
				if isTxField(w, "Payee") {
					onPayee = true
				}
				if isTxField(w, "Description") {
					onDesc = true
				}
			}
			break
		}
		c.check(onPayee && !onDesc, "I-PAYEEKEY", funcName(f), "payee-or-description is decided by the payee", f.Pos(),
			"the name a transaction is filed under is its payee unless the payee is empty",
			"a helper returns a transaction's Payee on one path and its Description on another, and the choice is not made by a test of the Payee alone: for `payee | note` transactions the transaction is filed under another name than the collectors of labels, counts and templates use")
	}
	c.census("I-PAYEEKEY", "values that merge a transaction's payee and description", n, 1)
}

// ruleDiskReaders (D-READ): every reader of journal files hands the parser the same text for the same bytes.  The
// include loader, the workspace (initial scan and files that become reachable later) and the save handler each read
// files with os.ReadFile; what is parsed must not depend on which of them happened to read the file (a byte order
// mark stripped by the loader but not by the workspace's second reader makes the incremental view differ from a
// rebuild).  For every os.ReadFile whose bytes reach a parse, the rule collects the module functions and
// strings/bytes transformations the data passes through on the way; all read sites must agree.
func ruleDiskReaders(c *Ctx) {
	ci := buildConc(c)
	reachesParse := map[*ssa.Function]bool{}
	parseFn := c.P.SSAFunc("internal/parser", "Parse")
	if parseFn == nil {
		c.undecided("D-READ", "parser", "parser entry point", token.NoPos, "parser.Parse not found")
		return
	}
	for _, f := range ci.funcs {
		if Reach(ci.g, []*ssa.Function{f}, true)[parseFn] {
			reachesParse[f] = true
		}
	}
	type site struct {
		f      *ssa.Function
		pos    token.Pos
		trans  []string
		parsed bool
	}
	var sites []site
	for _, f := range ci.funcs {
		for _, b := range f.Blocks {
			for _, ins := range b.Instrs {
				call, ok := ins.(*ssa.Call)
				if !ok {
					continue
				}
				cal := call.Call.StaticCallee()
				if cal == nil || cal.Pkg == nil || cal.Pkg.Pkg.Path() != "os" || cal.Name() != "ReadFile" {
					continue
				}
				st := site{f: f, pos: call.Pos()}
				seen := map[ssa.Value]bool{}
				var follow func(v ssa.Value, depth int)
				follow = func(v ssa.Value, depth int) {
					if v == nil || seen[v] || depth > 8 || v.Referrers() == nil {
						return
					}
					seen[v] = true
					for _, r := range *v.Referrers() {
						switch x := r.(type) {
						case *ssa.Extract:
							if x.Index == 0 {
								follow(x, depth+1)
							}
						case *ssa.Convert:
							follow(x, depth+1)
						case *ssa.ChangeType:
							follow(x, depth+1)
						case *ssa.Phi:
							follow(x, depth+1)
						case *ssa.Store:
							// a local that carries the text
							if al, ok := x.Addr.(*ssa.Alloc); ok && x.Val == v && al.Referrers() != nil {
								for _, r2 := range *al.Referrers() {
									if ld, ok := r2.(*ssa.UnOp); ok && ld.Op == token.MUL {
										follow(ld, depth+1)
									}
								}
							}
						case *ssa.Call:
							cal2 := x.Call.StaticCallee()
							if cal2 == nil {
								continue
							}
							isText := func(t types.Type) bool {
								ts := types.TypeString(t, nil)
								return ts == "string" || ts == "[]byte"
							}
							switch {
							case inModule(cal2) && reachesParse[cal2]:
								st.parsed = true
							case inModule(cal2) && x.Type() != nil && isText(x.Type()):
								st.trans = append(st.trans, funcName(cal2))
								follow(x, depth+1)
							case cal2.Pkg != nil && (cal2.Pkg.Pkg.Path() == "strings" || cal2.Pkg.Pkg.Path() == "bytes") && isText(x.Type()):
								st.trans = append(st.trans, cal2.Pkg.Pkg.Path()+"."+cal2.Name())
								follow(x, depth+1)
							}
						}
					}
				}
				follow(call, 0)
				if st.parsed {
					sort.Strings(st.trans)
					sites = append(sites, st)
				}
			}
		}
	}
	c.census("D-READ", "file reads whose bytes reach the parser", len(sites), 3)
	if len(sites) == 0 {
		return
	}
	count := map[string]int{}
	for _, s := range sites {
		count[strings.Join(s.trans, ",")]++
	}
	best, bestN := "", -1
	for k, n := range count {
		if n > bestN || (n == bestN && k < best) {
			best, bestN = k, n
		}
	}
	for _, s := range sites {
		k := strings.Join(s.trans, ",")
		c.check(k == best, "D-READ", funcName(s.f), "file text reaches the parser as in every other reader", s.pos,
			"the bytes read from disk pass through the same transformations as at the other read sites ("+orNone(best)+")",
			"this reader hands the parser a text that went through ["+orNone(k)+"] while the other readers of journal files use ["+orNone(best)+"]: the same file is understood differently depending on who read it - a fresh workspace (or the include loader) and the incremental update path disagree")
	}
}

func orNone(s string) string {
	if s == "" {
		return "no transformation"
	}
	return s
}

// ruleAnalyzerStateless (A-STATELESS): the analyzer is a function of what it is handed.  The server keeps one
// Analyzer for all documents and runs it for every change; a map, slice or pointer field in it is state that one
// analysis leaves for the next (a memo of per-transaction diagnostics, a table of per-file symbols) and makes
// answers depend on what was analysed before.  Such a field is reported as undecided: its key completeness and
// its invalidation on every route by which a file's content changes are not established by any rule here.
func ruleAnalyzerStateless(c *Ctx) {
	pk := c.P.ByRel["internal/analyzer"]
	if pk == nil {
		c.undecided("A-STATELESS", "analyzer", "analyzer package", token.NoPos, "package internal/analyzer not found")
		return
	}
	obj := pk.Types.Scope().Lookup("Analyzer")
	if obj == nil {
		c.undecided("A-STATELESS", "analyzer", "analyzer type", token.NoPos, "type analyzer.Analyzer not found")
		return
	}
	st, ok := obj.Type().Underlying().(*types.Struct)
	if !ok {
		c.ok("A-STATELESS", "analyzer.Analyzer", "the analyzer carries no state", obj.Pos(), "not a struct")
		return
	}
	n := 0
	for i := 0; i < st.NumFields(); i++ {
		f := st.Field(i)
		switch f.Type().Underlying().(type) {
		case *types.Map, *types.Slice, *types.Pointer, *types.Chan, *types.Interface:
			n++
			c.undecided("A-STATELESS", "analyzer.Analyzer", "field "+f.Name(), f.Pos(),
				"the analyzer, which the server shares between all documents and runs for every change, carries the field "+f.Name()+" ("+types.TypeString(f.Type(), nil)+") from one analysis to the next: whether what it remembers is keyed by everything it depends on and dropped on every route by which a file's content changes (didChange, didSave, an include that leaves and re-enters the tree, a reload from disk) is not established - answers may depend on what was analysed before")
		}
	}
	if n == 0 {
		c.ok("A-STATELESS", "analyzer.Analyzer", "the analyzer carries no state", obj.Pos(), fmt.Sprintf("%d fields, none of them a map, slice, pointer, channel or interface", st.NumFields()))
	}
}

// ruleGlobSiblings (G-SIBGLOB): wildcard include patterns are expanded in more than one place - by the include
// loader (the from-scratch path) and by the workspace when it records the include edges of one file (the incremental
// path).  Which of the files matched by the pattern count as included must not depend on who expanded it: a filter
// applied to the matches by one expander only (hidden files skipped by the loader but not by the workspace index)
// makes the incremental include graph name files a rebuild would not load.  For every call of a glob function the
// rule collects the library functions (outside the module, called directly or inside module helpers; filepath.Abs
// and filepath.Clean, which only re-spell a path, are not counted) whose results decide whether a match is kept in a list of
// paths: the control dependences of the appends of match-derived strings, in the expanding function, its function
// literals and the helpers it hands the matches to.  The expanders must agree on that set.  Comparisons of paths
// (a match is not the including file, not seen before) involve no library predicate and are not compared.
func ruleGlobSiblings(c *Ctx) {
	type site struct {
		f     *ssa.Function
		pos   token.Pos
		preds map[string]bool
	}
	isStrings := func(t types.Type) bool {
		ts := types.TypeString(t, nil)
		return ts == "[]string" || ts == "string"
	}
	// libCallees: the library functions a predicate consists of (itself, or what a module helper calls)
	var libCallees func(cal *ssa.Function, depth int, out map[string]bool)
	libCallees = func(cal *ssa.Function, depth int, out map[string]bool) {
		if !inModule(cal) {
			if cal.Pkg == nil {
				return
			}
			name := cal.Pkg.Pkg.Path() + "." + cal.Name()
			if name == "path/filepath.Abs" || name == "path/filepath.Clean" || strings.Contains(cal.Name(), "Glob") {
				return // another spelling of the same path: how both expanders recognise the including file
			}
			out[name] = true
			return
		}
		if depth >= 3 {
			return
		}
		for _, b := range cal.Blocks {
			for _, ins := range b.Instrs {
				if ic, ok := ins.(*ssa.Call); ok {
					if c2 := ic.Call.StaticCallee(); c2 != nil && c2 != cal {
						libCallees(c2, depth+1, out)
					}
				}
			}
		}
	}
	// predsIn: the library predicates deciding appends of strings derived from `roots` in fn and its literals
	var predsIn func(fn *ssa.Function, roots map[ssa.Value]bool, depth int, out map[string]bool)
	predsIn = func(fn *ssa.Function, roots map[ssa.Value]bool, depth int, out map[string]bool) {
		fns := append([]*ssa.Function{fn}, fn.AnonFuncs...)
		inRegion := map[*ssa.Function]bool{}
		for _, g := range fns {
			inRegion[g] = true
		}
		derived := func(v ssa.Value) bool {
			for w := range backSlice(v) {
				if roots[w] {
					return true
				}
			}
			return false
		}
		for _, g := range fns {
			for _, b := range g.Blocks {
				for _, ins := range b.Instrs {
					call, ok := ins.(*ssa.Call)
					if !ok {
						continue
					}
					if bi, ok := call.Call.Value.(*ssa.Builtin); ok {
						if bi.Name() != "append" || len(call.Call.Args) < 2 || !isStrings(call.Call.Args[1].Type()) || !derived(call.Call.Args[1]) {
							continue
						}
						for _, cc := range controlDeps(b) {
							sl := backSlice(cc.Cond)
							dep := false
							for w := range sl {
								if roots[w] {
									dep = true
								}
							}
							if !dep {
								continue
							}
							for w := range sl {
								pc, ok := w.(*ssa.Call)
								if !ok || roots[pc] || !inRegion[pc.Parent()] || !derived(pc) {
									continue // only what is computed from the matches in this function (not what the pattern was built from)
								}
								pcal := pc.Call.StaticCallee()
								if pcal == nil {
									continue
								}
								libCallees(pcal, 0, out)
							}
						}
						continue
					}
					// a helper that is handed match-derived values
					cal := call.Call.StaticCallee()
					if cal == nil || !inModule(cal) || depth >= 2 || cal == fn {
						continue
					}
					sub := map[ssa.Value]bool{}
					for i, a := range call.Call.Args {
						if i < len(cal.Params) && isStrings(a.Type()) && derived(a) {
							sub[cal.Params[i]] = true
						}
					}
					if len(sub) > 0 {
						predsIn(cal, sub, depth+1, out)
					}
				}
			}
		}
	}
	var sites []site
	for _, f := range c.P.ModuleFuncs() {
		if f.Parent() != nil {
			continue
		}
		for _, g := range append([]*ssa.Function{f}, f.AnonFuncs...) {
			for _, b := range g.Blocks {
				for _, ins := range b.Instrs {
					call, ok := ins.(*ssa.Call)
					if !ok {
						continue
					}
					cal := call.Call.StaticCallee()
					if cal == nil || cal.Pkg == nil || inModule(cal) || !strings.Contains(cal.Name(), "Glob") || len(call.Call.Args) == 0 {
						continue
					}
					if sl, ok := call.Type().(*types.Tuple); !ok || sl.Len() == 0 || types.TypeString(sl.At(0).Type(), nil) != "[]string" {
						continue
					}
					st := site{f: f, pos: call.Pos(), preds: map[string]bool{}}
					predsIn(f, map[ssa.Value]bool{call: true}, 0, st.preds)
					sites = append(sites, st)
				}
			}
		}
	}
	c.census("G-SIBGLOB", "expansions of a wildcard include pattern", len(sites), 1)
	if len(sites) < 2 {
		return
	}
	common := map[string]bool{}
	for p := range sites[0].preds {
		common[p] = true
	}
	for _, s := range sites[1:] {
		for p := range common {
			if !s.preds[p] {
				delete(common, p)
			}
		}
	}
	for _, s := range sites {
		var extra, all []string
		for p := range s.preds {
			all = append(all, p)
			if !common[p] {
				extra = append(extra, p)
			}
		}
		sort.Strings(extra)
		sort.Strings(all)
		c.check(len(extra) == 0, "G-SIBGLOB", funcName(s.f), "glob matches are filtered like in the sibling expanders", s.pos,
			fmt.Sprintf("library predicates deciding which matches are kept: %v, as in the other %d expander(s)", all, len(sites)-1),
			fmt.Sprintf("this expansion of a wildcard include keeps or drops matches by %v, which the other expander(s) of include patterns do not apply: the include loader (rebuild) and the workspace's include graph (incremental) disagree on which files a pattern includes, so files are indexed after edits that a fresh load would not contain (or the reverse)", extra))
	}
}
