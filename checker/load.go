package main

// Loading of /repo's current working tree: go/packages (type-checked syntax of
// every package any build of the module covers under the given tags/GOOS/GOARCH),
// go/ssa and the VTA/CHA call graph.  Nothing in /repo is executed.

import (
	"fmt"
	"go/ast"
	"go/token"
	"go/types"
	"os"
	"path/filepath"
	"sort"
	"strings"

	"golang.org/x/tools/go/callgraph"
	"golang.org/x/tools/go/callgraph/cha"
	"golang.org/x/tools/go/callgraph/vta"
	"golang.org/x/tools/go/packages"
	"golang.org/x/tools/go/ssa"
	"golang.org/x/tools/go/ssa/ssautil"
)

const modPath = "github.com/juev/hledger-lsp"

type LoadConfig struct {
	Repo   string
	Tags   string // e.g. "verif" or ""
	GOOS   string
	GOARCH string
}

type packagesPackage = packages.Package

func (c LoadConfig) String() string {
	goos, arch := c.GOOS, c.GOARCH
	if goos == "" {
		goos = "linux"
	}
	if arch == "" {
		arch = "amd64"
	}
	t := c.Tags
	if t == "" {
		t = "-"
	}
	return fmt.Sprintf("%s/%s tags=%s", goos, arch, t)
}

type Prog struct {
	Cfg   LoadConfig
	Fset  *token.FileSet
	Pkgs  []*packages.Package          // module packages, sorted by path
	ByRel map[string]*packages.Package // "internal/server" -> package
	All   map[string]*packages.Package // every package by import path

	ssaProg *ssa.Program
	ssaPkgs map[*types.Package]*ssa.Package
	cgVTA   *callgraph.Graph
	cgCHA   *callgraph.Graph

	NFiles int
	NFuncs int

	declOf map[*types.Func]*ast.FuncDecl
	pkgOf  map[*ast.FuncDecl]*packages.Package
}

func Load(cfg LoadConfig) (*Prog, error) {
	env := os.Environ()
	env = append(env, "GOWORK=off", "CGO_ENABLED=0")
	if cfg.GOOS != "" {
		env = append(env, "GOOS="+cfg.GOOS)
	}
	if cfg.GOARCH != "" {
		env = append(env, "GOARCH="+cfg.GOARCH)
	}
	var flags []string
	if cfg.Tags != "" {
		flags = append(flags, "-tags="+cfg.Tags)
	}
	pc := &packages.Config{
		Mode:       packages.LoadAllSyntax,
		Dir:        cfg.Repo,
		Tests:      false,
		BuildFlags: flags,
		Env:        env,
	}
	pkgs, err := packages.Load(pc, "./...")
	if err != nil {
		return nil, fmt.Errorf("packages.Load: %w", err)
	}
	if len(pkgs) == 0 {
		return nil, fmt.Errorf("no packages loaded from %s", cfg.Repo)
	}
	p := &Prog{Cfg: cfg, ByRel: map[string]*packages.Package{}, All: map[string]*packages.Package{},
		declOf: map[*types.Func]*ast.FuncDecl{}, pkgOf: map[*ast.FuncDecl]*packages.Package{}}
	var errs []string
	packages.Visit(pkgs, nil, func(pk *packages.Package) {
		p.All[pk.PkgPath] = pk
		if strings.HasPrefix(pk.PkgPath, modPath) {
			for _, e := range pk.Errors {
				errs = append(errs, e.Error())
			}
		}
	})
	if len(errs) > 0 {
		return nil, fmt.Errorf("type-check errors in module packages:\n  %s", strings.Join(errs, "\n  "))
	}
	for _, pk := range pkgs {
		if !strings.HasPrefix(pk.PkgPath, modPath) {
			return nil, fmt.Errorf("unexpected module path %s (want %s)", pk.PkgPath, modPath)
		}
		p.Pkgs = append(p.Pkgs, pk)
		rel := strings.TrimPrefix(strings.TrimPrefix(pk.PkgPath, modPath), "/")
		p.ByRel[rel] = pk
		p.Fset = pk.Fset
		p.NFiles += len(pk.Syntax)
		for _, f := range pk.Syntax {
			for _, d := range f.Decls {
				if fd, ok := d.(*ast.FuncDecl); ok {
					p.NFuncs++
					if obj, ok := pk.TypesInfo.Defs[fd.Name].(*types.Func); ok {
						p.declOf[obj] = fd
					}
					p.pkgOf[fd] = pk
				}
			}
		}
	}
	sort.Slice(p.Pkgs, func(i, j int) bool { return p.Pkgs[i].PkgPath < p.Pkgs[j].PkgPath })
	for _, need := range []string{"internal/server", "internal/parser", "internal/analyzer", "internal/workspace", "internal/include", "internal/formatter", "internal/lsputil", "internal/ast", "cmd/hledger-lsp"} {
		if p.ByRel[need] == nil {
			return nil, fmt.Errorf("package %s/%s not found in %s", modPath, need, cfg.Repo)
		}
	}
	return p, nil
}

// ---- SSA and call graphs (built lazily) ----

func (p *Prog) SSA() *ssa.Program {
	if p.ssaProg != nil {
		return p.ssaProg
	}
	var initial []*packages.Package
	initial = append(initial, p.Pkgs...)
	prog, _ := ssautil.AllPackages(initial, ssa.InstantiateGenerics)
	prog.Build()
	p.ssaProg = prog
	p.ssaPkgs = map[*types.Package]*ssa.Package{}
	for _, sp := range prog.AllPackages() {
		p.ssaPkgs[sp.Pkg] = sp
	}
	return prog
}

func (p *Prog) SSAPkg(rel string) *ssa.Package {
	p.SSA()
	pk := p.ByRel[rel]
	if pk == nil {
		return nil
	}
	return p.ssaPkgs[pk.Types]
}

// SSAFunc finds a function or method: name "Func" or "Type.Method" (pointer or value receiver).
func (p *Prog) SSAFunc(rel, name string) *ssa.Function {
	sp := p.SSAPkg(rel)
	if sp == nil {
		return nil
	}
	if i := strings.Index(name, "."); i >= 0 {
		tn, mn := name[:i], name[i+1:]
		t := sp.Type(tn)
		if t == nil {
			return nil
		}
		named := t.Type()
		for _, typ := range []types.Type{types.NewPointer(named), named} {
			ms := p.ssaProg.MethodSets.MethodSet(typ)
			if sel := ms.Lookup(sp.Pkg, mn); sel != nil {
				return p.ssaProg.MethodValue(sel)
			}
		}
		return nil
	}
	return sp.Func(name)
}

func (p *Prog) CallGraph(kind string) *callgraph.Graph {
	prog := p.SSA()
	if p.cgCHA == nil {
		p.cgCHA = cha.CallGraph(prog)
	}
	if kind == "cha" || os.Getenv("HL_CG") == "cha" {
		return p.cgCHA
	}
	if p.cgVTA == nil {
		p.cgVTA = vta.CallGraph(ssautil.AllFunctions(prog), p.cgCHA)
	}
	return p.cgVTA
}

func inModule(f *ssa.Function) bool {
	if f == nil {
		return false
	}
	if f.Pkg != nil {
		return strings.HasPrefix(f.Pkg.Pkg.Path(), modPath)
	}
	if f.Parent() != nil {
		return inModule(f.Parent())
	}
	if o := f.Origin(); o != nil && o != f {
		return inModule(o)
	}
	return false
}

// ModuleFuncs returns all SSA functions (incl. anonymous ones) defined in module packages.
func (p *Prog) ModuleFuncs() []*ssa.Function {
	prog := p.SSA()
	var out []*ssa.Function
	for f := range ssautil.AllFunctions(prog) {
		// the body of a `for x := range seq` loop over an iterator function is a synthetic "yield" function that
		// holds user code
		if inModule(f) && f.Blocks != nil && (f.Synthetic == "" || f.Synthetic == "range-over-func yield") {
			out = append(out, f)
		}
	}
	sort.Slice(out, func(i, j int) bool { return funcName(out[i]) < funcName(out[j]) })
	return out
}

// funcName gives a stable, line-free name: "server.(*Server).DidChange", "server.(*Server).DidChange$1".
func funcName(f *ssa.Function) string {
	if f == nil {
		return "<nil>"
	}
	s := f.String()
	s = strings.ReplaceAll(s, modPath+"/internal/", "")
	s = strings.ReplaceAll(s, modPath+"/cmd/", "cmd/")
	return s
}

// Reach computes the set of functions reachable from roots in graph g.
// If stopAtGo is true, edges whose call site is a `go` statement are not followed.
func Reach(g *callgraph.Graph, roots []*ssa.Function, stopAtGo bool) map[*ssa.Function]bool {
	seen := map[*ssa.Function]bool{}
	var work []*ssa.Function
	for _, r := range roots {
		if r != nil && !seen[r] {
			seen[r] = true
			work = append(work, r)
		}
	}
	for len(work) > 0 {
		f := work[len(work)-1]
		work = work[:len(work)-1]
		n := g.Nodes[f]
		if n == nil {
			continue
		}
		for _, e := range n.Out {
			if stopAtGo {
				if _, isGo := e.Site.(*ssa.Go); isGo {
					continue
				}
			}
			c := e.Callee.Func
			if c != nil && !seen[c] {
				seen[c] = true
				work = append(work, c)
			}
		}
	}
	return seen
}

// ---- AST helpers ----

// FuncDecl finds a function or method declaration by "Func" or "Recv.Method" in a package.
func (p *Prog) FuncDecl(rel, name string) *ast.FuncDecl {
	pk := p.ByRel[rel]
	if pk == nil {
		return nil
	}
	recv, fn := "", name
	if i := strings.Index(name, "."); i >= 0 {
		recv, fn = name[:i], name[i+1:]
	}
	for _, f := range pk.Syntax {
		for _, d := range f.Decls {
			fd, ok := d.(*ast.FuncDecl)
			if !ok || fd.Name.Name != fn {
				continue
			}
			if recvTypeName(fd) == recv {
				return fd
			}
		}
	}
	return nil
}

func recvTypeName(fd *ast.FuncDecl) string {
	if fd.Recv == nil || len(fd.Recv.List) == 0 {
		return ""
	}
	t := fd.Recv.List[0].Type
	for {
		switch x := t.(type) {
		case *ast.StarExpr:
			t = x.X
		case *ast.ParenExpr:
			t = x.X
		case *ast.IndexExpr:
			t = x.X
		case *ast.Ident:
			return x.Name
		default:
			return ""
		}
	}
}

// declName gives "pkg.Recv.Func" for a declaration.
func (p *Prog) declName(fd *ast.FuncDecl) string {
	pk := p.pkgOf[fd]
	pn := "?"
	if pk != nil {
		pn = pk.Name
	}
	if r := recvTypeName(fd); r != "" {
		return pn + "." + r + "." + fd.Name.Name
	}
	return pn + "." + fd.Name.Name
}

func (p *Prog) pos(n token.Pos) string {
	if !n.IsValid() {
		return "-"
	}
	ps := p.Fset.Position(n)
	rel, err := filepath.Rel(p.Cfg.Repo, ps.Filename)
	if err != nil {
		rel = ps.Filename
	}
	return fmt.Sprintf("%s:%d", rel, ps.Line)
}

// AllFuncDecls iterates over all function declarations of module packages in a stable order.
func (p *Prog) AllFuncDecls() []*ast.FuncDecl {
	var out []*ast.FuncDecl
	for _, pk := range p.Pkgs {
		for _, f := range pk.Syntax {
			for _, d := range f.Decls {
				if fd, ok := d.(*ast.FuncDecl); ok && fd.Body != nil {
					out = append(out, fd)
				}
			}
		}
	}
	return out
}

func (p *Prog) InfoFor(fd *ast.FuncDecl) *types.Info {
	if pk := p.pkgOf[fd]; pk != nil {
		return pk.TypesInfo
	}
	return nil
}

// calleeOf resolves the static callee of a call expression through type information.
func calleeOf(info *types.Info, call *ast.CallExpr) types.Object {
	fun := ast.Unparen(call.Fun)
	switch f := fun.(type) {
	case *ast.Ident:
		return info.Uses[f]
	case *ast.SelectorExpr:
		if sel := info.Selections[f]; sel != nil {
			return sel.Obj()
		}
		return info.Uses[f.Sel]
	case *ast.IndexExpr:
		if id, ok := ast.Unparen(f.X).(*ast.Ident); ok {
			return info.Uses[id]
		}
		if se, ok := ast.Unparen(f.X).(*ast.SelectorExpr); ok {
			return info.Uses[se.Sel]
		}
	}
	return nil
}

// qualName returns "pkgpath.Name" or "pkgpath.Recv.Name" for a function object.
func qualName(o types.Object) string {
	fn, ok := o.(*types.Func)
	if !ok {
		if o == nil {
			return ""
		}
		if o.Pkg() == nil {
			return o.Name() // builtin
		}
		return o.Pkg().Path() + "." + o.Name()
	}
	sig := fn.Type().(*types.Signature)
	pk := ""
	if fn.Pkg() != nil {
		pk = fn.Pkg().Path()
	}
	if r := sig.Recv(); r != nil {
		t := r.Type()
		if pt, ok := t.(*types.Pointer); ok {
			t = pt.Elem()
		}
		if n, ok := t.(*types.Named); ok {
			return pk + "." + n.Obj().Name() + "." + fn.Name()
		}
		if _, ok := t.Underlying().(*types.Interface); ok {
			return pk + ".<iface>." + fn.Name()
		}
	}
	return pk + "." + fn.Name()
}

func shortQual(s string) string {
	s = strings.ReplaceAll(s, modPath+"/internal/", "")
	s = strings.ReplaceAll(s, modPath+"/cmd/", "cmd/")
	return s
}

// fullStr renders a node on one line without truncation.
func fullStr(fset *token.FileSet, e ast.Node) string {
	if e == nil {
		return ""
	}
	var sb strings.Builder
	_ = printerFprint(&sb, fset, e)
	return strings.Join(strings.Fields(sb.String()), " ")
}

func exprStr(fset *token.FileSet, e ast.Node) string {
	if e == nil {
		return ""
	}
	var sb strings.Builder
	_ = printerFprint(&sb, fset, e)
	s := sb.String()
	s = strings.Join(strings.Fields(s), " ")
	if len(s) > 120 {
		s = s[:117] + "..."
	}
	return s
}

// ---- role-based anchor resolution (DESIGN §2.2): find a declaration by what it is, not by its name ----

// FindDecl returns the first function declaration of the package for which pred holds (stable order).
func (p *Prog) FindDecl(rel string, pred func(fd *ast.FuncDecl, info *types.Info) bool) *ast.FuncDecl {
	pk := p.ByRel[rel]
	if pk == nil {
		return nil
	}
	for _, f := range pk.Syntax {
		for _, d := range f.Decls {
			if fd, ok := d.(*ast.FuncDecl); ok && fd.Body != nil && pred(fd, pk.TypesInfo) {
				return fd
			}
		}
	}
	return nil
}

// paramTypes / resultTypes render the declared types of a function.
func paramTypes(fd *ast.FuncDecl, info *types.Info) []string {
	var out []string
	if fd.Type.Params == nil {
		return out
	}
	for _, fl := range fd.Type.Params.List {
		n := len(fl.Names)
		if n == 0 {
			n = 1
		}
		for i := 0; i < n; i++ {
			out = append(out, types.TypeString(info.TypeOf(fl.Type), nil))
		}
	}
	return out
}

func resultTypes(fd *ast.FuncDecl, info *types.Info) []string {
	var out []string
	if fd.Type.Results == nil {
		return out
	}
	for _, fl := range fd.Type.Results.List {
		n := len(fl.Names)
		if n == 0 {
			n = 1
		}
		for i := 0; i < n; i++ {
			out = append(out, types.TypeString(info.TypeOf(fl.Type), nil))
		}
	}
	return out
}

func hasSuffixAny(l []string, suffix string) bool {
	for _, s := range l {
		if strings.HasSuffix(s, suffix) {
			return true
		}
	}
	return false
}

// ssaOf maps a declaration to its SSA function.
func (p *Prog) ssaOf(fd *ast.FuncDecl) *ssa.Function {
	pk := p.pkgOf[fd]
	if pk == nil {
		return nil
	}
	obj, ok := pk.TypesInfo.Defs[fd.Name].(*types.Func)
	if !ok {
		return nil
	}
	return p.SSA().FuncValue(obj)
}

// handlerByParam: the method of server.Server whose second parameter type ends with the given suffix.
func (p *Prog) handlerByParam(suffix string) *ast.FuncDecl {
	return p.FindDecl("internal/server", func(fd *ast.FuncDecl, info *types.Info) bool {
		return recvTypeName(fd) == "Server" && hasSuffixAny(paramTypes(fd, info), suffix)
	})
}
