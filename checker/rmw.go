package main

// C-RMW: read-modify-write of lock-protected state happens inside ONE critical section.
//
// A value stored into a field of a lock-owning struct (or put into a map held by such a field, or
// stored into one of its sync.Map fields) is traced backwards through data flow - within the function,
// into the callees whose results it uses, and out to the callers whose arguments it uses.  If that slice
// contains a read of the SAME field that was made in a different critical section (another acquisition
// of the lock, or another sync.Map operation), the update is computed from a state that may have been
// replaced in between: when some writer of the field runs on a server-started goroutine, one of two
// concurrent updates is lost.  (This is the shape of the settings refresh repaired in 3323558.)

import (
	"fmt"
	"go/token"
	"go/types"
	"os"
	"sort"
	"strings"

	"golang.org/x/tools/go/ssa"
)

type rmwEvent struct {
	field string // "server.Server.settings"
	write bool
	ins   ssa.Instruction // the load / store / map update / sync.Map call
	val   ssa.Value       // read: the value obtained; write: the value stored
	fn    *ssa.Function
	cs    ssa.Instruction // acquisition that opens the critical section (the sync.Map call itself); nil = lock held on entry
	lock  lockID
	pos   token.Pos
	key   ssa.Value // element key for map / sync.Map accesses; nil = the whole field
}

// rootSharedField: addr is (rooted at) a field of a shared struct reached through a pointer.
func rootSharedField(addr ssa.Value) (string, *ssa.FieldAddr, bool) {
	var last *ssa.FieldAddr
	for {
		switch a := addr.(type) {
		case *ssa.FieldAddr:
			last = a
			addr = a.X
			continue
		case *ssa.IndexAddr:
			addr = a.X
			continue
		}
		break
	}
	if last == nil {
		return "", nil, false
	}
	if _, fresh := last.X.(*ssa.Alloc); fresh {
		return "", nil, false // object under construction
	}
	pt, ok := last.X.Type().Underlying().(*types.Pointer)
	if !ok {
		return "", nil, false
	}
	sname := shortQual(types.TypeString(pt.Elem(), nil))
	if !sharedStructs[sname] {
		return "", nil, false
	}
	st, ok := pt.Elem().Underlying().(*types.Struct)
	if !ok {
		return "", nil, false
	}
	return sname + "." + st.Field(last.Field).Name(), last, true
}

func baseLock(l lockID) lockID { return lockID(strings.TrimSuffix(string(l), "(R)")) }

// lockFor: a lock of the field's own struct that is certainly held at ins.
func (ci *concInfo) lockFor(field string, ins ssa.Instruction) (lockID, bool) {
	owner := field[:strings.LastIndex(field, ".")]
	var cands []string
	for l := range ci.must[ins] {
		b := baseLock(l)
		if strings.HasPrefix(string(b), owner+".") {
			cands = append(cands, string(b))
		}
	}
	if len(cands) == 0 {
		return "", false
	}
	sort.Strings(cands)
	return lockID(cands[0]), true
}

// acquisitionOf: the nearest acquisition of lock l that dominates ins in its function (nil: held on entry).
func acquisitionOf(ins ssa.Instruction, l lockID) ssa.Instruction {
	b := ins.Block()
	idx := len(b.Instrs)
	for i, x := range b.Instrs {
		if x == ins {
			idx = i
		}
	}
	for b != nil {
		for i := idx - 1; i >= 0; i-- {
			call, ok := b.Instrs[i].(ssa.CallInstruction)
			if !ok {
				continue
			}
			if _, isDefer := b.Instrs[i].(*ssa.Defer); isDefer {
				continue
			}
			if id, dir, _ := lockOp(call); dir > 0 && id == l {
				return b.Instrs[i]
			}
		}
		b = b.Idom()
		if b != nil {
			idx = len(b.Instrs)
		}
	}
	return nil
}

func syncMapOp(call ssa.CallInstruction) (string, bool) {
	cal := call.Common().StaticCallee()
	if cal == nil || cal.Signature.Recv() == nil || types.TypeString(cal.Signature.Recv().Type(), nil) != "*sync.Map" {
		return "", false
	}
	return cal.Name(), true
}

func collectRMWEvents(ci *concInfo) []rmwEvent {
	var evs []rmwEvent
	for _, f := range ci.funcs {
		if ci.initFns[f] {
			continue
		}
		for _, b := range f.Blocks {
			for _, ins := range b.Instrs {
				switch x := ins.(type) {
				case *ssa.Store:
					if field, _, ok := rootSharedField(x.Addr); ok {
						if l, held := ci.lockFor(field, ins); held {
							evs = append(evs, rmwEvent{field, true, ins, x.Val, f, acquisitionOf(ins, l), l, x.Pos(), nil})
						}
					} else if prm, isPrm := x.Addr.(*ssa.Parameter); isPrm {
						// a store through a pointer parameter that every caller binds to a shared field (`slot *map[..]T`
						// handed &w.cachedFormats): a write of that field
						if field := sharedFieldBoundTo(ci, f, prm); field != "" {
							if l, held := ci.lockFor(field, ins); held {
								evs = append(evs, rmwEvent{field, true, ins, x.Val, f, acquisitionOf(ins, l), l, x.Pos(), nil})
							}
						}
					}
				case *ssa.UnOp:
					if x.Op != token.MUL {
						continue
					}
					if field, _, ok := rootSharedField(x.X); ok {
						if l, held := ci.lockFor(field, ins); held {
							evs = append(evs, rmwEvent{field, false, ins, x, f, acquisitionOf(ins, l), l, x.Pos(), nil})
						}
					}
				case *ssa.MapUpdate:
					// m[k] = v where m was loaded from a shared field
					if ld, ok := x.Map.(*ssa.UnOp); ok && ld.Op == token.MUL {
						if field, _, ok := rootSharedField(ld.X); ok {
							if l, held := ci.lockFor(field, ins); held {
								evs = append(evs, rmwEvent{field, true, ins, x.Value, f, acquisitionOf(ins, l), l, x.Pos(), x.Key})
							}
						}
					}
				case *ssa.Lookup:
					// m[k] where m was loaded from a shared field
					if ld, ok := x.X.(*ssa.UnOp); ok && ld.Op == token.MUL {
						if field, _, ok := rootSharedField(ld.X); ok {
							if l, held := ci.lockFor(field, ins); held {
								evs = append(evs, rmwEvent{field, false, ins, x, f, acquisitionOf(ins, l), l, x.Pos(), x.Index})
							}
						}
					}
				case *ssa.Call:
					op, ok := syncMapOp(x)
					if !ok || len(x.Call.Args) == 0 {
						continue
					}
					field, _, ok := rootSharedField(x.Call.Args[0])
					if !ok {
						continue
					}
					switch op {
					case "Load":
						if len(x.Call.Args) == 2 {
							evs = append(evs, rmwEvent{field, false, ins, x, f, ins, "", x.Pos(), x.Call.Args[1]})
						}
					case "Store", "Swap":
						if len(x.Call.Args) == 3 {
							evs = append(evs, rmwEvent{field, true, ins, x.Call.Args[2], f, ins, "", x.Pos(), x.Call.Args[1]})
						}
					}
				}
			}
		}
	}
	return evs
}

// sliceUp: backSlice of v, continued through the parameters of its function into the arguments at the
// function's call sites (bounded).
func sliceUp(ci *concInfo, v ssa.Value, f *ssa.Function) map[ssa.Value]bool {
	return sliceUpN(ci, v, f, 3)
}

// sliceUpN: sliceUp with an explicit bound on the number of caller levels.
func sliceUpN(ci *concInfo, v ssa.Value, f *ssa.Function, maxDepth int) map[ssa.Value]bool {
	all := map[ssa.Value]bool{}
	type item struct {
		v     ssa.Value
		f     *ssa.Function
		depth int
		path  []int
	}
	work := []item{{v, f, 0, nil}}
	seen := map[string]bool{}
	for len(work) > 0 {
		it := work[0]
		work = work[1:]
		k := fmt.Sprintf("%p|%v", it.v, it.path)
		if seen[k] {
			continue
		}
		seen[k] = true
		sl, pp := backSlicePath(it.v, it.path)
		for x := range sl {
			all[x] = true
			p, ok := x.(*ssa.Parameter)
			if !ok || it.depth >= maxDepth {
				continue
			}
			// the parameter belongs to the function sliced in, or (through a captured variable) to a function enclosing it
			pf := p.Parent()
			encl := false
			for g := it.f; g != nil; g = g.Parent() {
				if g == pf {
					encl = true
				}
			}
			if !encl {
				continue
			}
			idx := -1
			for i, q := range pf.Params {
				if q == p {
					idx = i
				}
			}
			n := ci.g.Nodes[pf]
			if idx < 0 || n == nil {
				continue
			}
			paths := pp[p]
			if len(paths) == 0 {
				paths = [][]int{nil}
			}
			for _, e := range n.In {
				if e.Site == nil || e.Caller.Func == nil {
					continue
				}
				if _, isGo := e.Site.(*ssa.Go); isGo {
					continue
				}
				if ci.initFns[e.Caller.Func] {
					continue // initialisation phase (constructor, Initialize): no server-started goroutine exists yet
				}
				if e.Caller.Func == f && it.depth > 0 {
					continue // back into the function of the store through recursion: another activation, not this update
				}
				args := e.Site.Common().Args
				ai := idx
				if e.Site.Common().IsInvoke() {
					// receiver is not part of Args for interface calls
					if idx == 0 {
						continue
					}
					ai = idx - 1
				}
				if ai < len(args) {
					for _, pth := range paths {
						work = append(work, item{args[ai], e.Caller.Func, it.depth + 1, pth})
					}
				}
			}
		}
	}
	return all
}

// sameElement: both accesses concern the whole field, or the same element of the map it holds.
func sameElement(a, b ssa.Value) bool {
	if a == nil || b == nil {
		return a == nil && b == nil
	}
	return stripConv(a) == stripConv(b)
}

func stripConv(v ssa.Value) ssa.Value {
	for {
		switch x := v.(type) {
		case *ssa.ChangeType:
			v = x.X
		case *ssa.Convert:
			v = x.X
		case *ssa.MakeInterface:
			v = x.X
		default:
			return v
		}
	}
}

// sharedFieldBoundTo: the pointer parameter prm of f is, at some call site, the address of a field of a shared struct.
func sharedFieldBoundTo(ci *concInfo, f *ssa.Function, prm *ssa.Parameter) string {
	idx := -1
	for i, q := range f.Params {
		if q == prm {
			idx = i
		}
	}
	if idx < 0 {
		return ""
	}
	var fns []*ssa.Function
	fns = append(fns, f)
	if o := f.Origin(); o != nil && o != f {
		fns = append(fns, o)
	}
	for _, g := range fns {
		for _, site := range (cgView{ci.c}).callersOf(g) {
			if idx < len(site.Common().Args) {
				if field, _, ok := rootSharedField(site.Common().Args[idx]); ok {
					return field
				}
			}
		}
	}
	return ""
}

func ruleRMW(c *Ctx) {
	ci := buildConc(c)
	evs := collectRMWEvents(ci)
	writersG := map[string]bool{}
	writersAny := map[string]bool{}
	for _, e := range evs {
		if e.write {
			writersAny[e.field] = true
		}
	}
	reads := map[ssa.Value]rmwEvent{}
	nW := 0
	for _, e := range evs {
		if e.write {
			nW++
			if ci.reachG[e.fn] {
				writersG[e.field] = true
			}
		} else {
			reads[e.val] = e
		}
	}
	c.census("C-RMW", "stores into lock-protected shared state (field, map element, sync.Map entry)", nW, 8)
	var ws []rmwEvent
	for _, e := range evs {
		if e.write {
			ws = append(ws, e)
		}
	}
	sort.Slice(ws, func(i, j int) bool { return ws[i].pos < ws[j].pos })
	for _, w := range ws {
		if os.Getenv("HL_DBGRMW") != "" {
			fmt.Printf("RMW write %s in %s at %s cs=%v\n", w.field, funcName(w.fn), ci.p.pos(w.pos), w.cs != nil)
		}
		desc := "update of " + w.field + " uses no state read in another critical section"
		sl := sliceUp(ci, w.val, w.fn)
		own := backSlice(w.val)
		bad := ""
		nSame := 0
		for v := range sl {
			r, ok := reads[v]
			if !ok || r.field != w.field || !sameElement(r.key, w.key) {
				continue
			}
			// element keys are compared as SSA values, which only denote the same runtime value within one
			// activation of the function: keyed accesses are related only inside the function of the store
			if w.key != nil && (r.fn != w.fn || !own[v]) {
				continue
			}
			if r.cs == nil || w.cs == nil {
				nSame++ // the lock is held by a caller across the function: part of the caller's critical section
				continue
			}
			if r.cs == w.cs {
				nSame++
				continue
			}
			if !writersG[w.field] {
				continue // every writer runs on the serial dispatch goroutine: no update can intervene
			}
			if os.Getenv("HL_DBGRMW") != "" {
				debugRMW(ci, w, r)
			}
			bad = fmt.Sprintf("the value stored at %s derives from a read of %s at %s made in a different critical section (lock released in between): an update made by another goroutine between the two is lost",
				ci.p.pos(w.pos), w.field, ci.p.pos(r.pos))
		}
		// derived-state clause: the stored value is computed, in this function, from ANOTHER guarded field of the same
		// struct that was read under an earlier acquisition of the same lock: whoever replaces that field in between
		// (and clears the derived slot) is overwritten with a value derived from the old state
		if bad == "" && w.cs != nil {
			// re-validation: the store is control dependent on a test that reads the source field again inside the
			// store's own critical section (`if s.settings.CLI == cfg { s.cliClient = client }`)
			revalidated := map[string]bool{}
			for _, cc := range controlCondsPol(w.ins.Block()) {
				for v := range backSlice(cc.Cond) {
					if r2, ok := reads[v]; ok && r2.cs == w.cs && r2.fn == w.fn {
						revalidated[r2.field] = true
					}
				}
			}
			for v := range sl {
				r, ok := reads[v]
				if ok && revalidated[r.field] {
					continue
				}
				if ok && os.Getenv("HL_DBGRMW") != "" && r.fn == w.fn {
					fmt.Printf("  derived? %s <- %s rcs=%v wcs=%v same=%v rl=%q wl=%q wAny=%v reachG=%v wG=%v\n", w.field, r.field, r.cs != nil, w.cs != nil, r.cs == w.cs, r.lock, w.lock, writersAny[r.field], ci.reachG[w.fn], writersG[r.field])
				}
				if !ok || r.field == w.field || r.cs == nil || r.cs == w.cs || strings.TrimSuffix(string(r.lock), "(R)") != strings.TrimSuffix(string(w.lock), "(R)") || r.lock == "" {
					continue
				}
				if structOfField(r.field) != structOfField(w.field) || !writersAny[r.field] {
					continue
				}
				onG := ci.reachG[w.fn]
				if !onG {
					// the shared body of a generic function: reachable if one of its instantiations is
					for g, ok := range ci.reachG {
						if ok && g.Origin() == w.fn {
							onG = true
						}
					}
				}
				if !onG && !writersG[r.field] {
					continue
				}
				bad = fmt.Sprintf("the value stored at %s is derived from %s read at %s in an earlier critical section of the same lock: an update that replaces %s in between (and resets the derived state) is followed by this store of a value computed from the old state, which then stays until the next update",
					ci.p.pos(w.pos), r.field, ci.p.pos(r.pos), r.field)
			}
		}
		c.check(bad == "", "C-RMW", funcName(w.fn), desc, w.pos,
			fmt.Sprintf("the stored value depends on %d read(s) of the field, all in the critical section of the store", nSame), bad)
	}
}

func debugRMW(ci *concInfo, w rmwEvent, r rmwEvent) {
	// print one dependency chain from w.val to r.val (intra-function only)
	type node struct {
		v    ssa.Value
		prev *node
	}
	seen := map[ssa.Value]bool{}
	q := []*node{{w.val, nil}}
	for len(q) > 0 {
		n := q[0]
		q = q[1:]
		if seen[n.v] {
			continue
		}
		seen[n.v] = true
		if n.v == r.val {
			for x := n; x != nil; x = x.prev {
				fmt.Printf("   <- %s = %s\n", x.v.Name(), x.v.String())
			}
			return
		}
		for d := range backSlice(n.v) {
			if d != n.v && !seen[d] {
				q = append(q, &node{d, n})
			}
		}
	}
}

// ruleOverlay (C19-OVERLAY): after initialisation the settings are only ever replaced by a value computed from
// the current settings (an overlay of the recognised entries of a payload), never by an unrelated value: an
// absent, unrecognised or ill-typed entry keeps its previous value.
//
// The settings field is the shared-struct field of the settings root type.  A store into it must derive from
// a read of the field; where the stored value is the result of a caller-supplied function (update(current)),
// every function value passed at the call sites must itself return something computed from its argument -
// a call site that passes a function ignoring its argument is a wholesale replacement and is only accepted
// in the initialisation phase (constructor, Initialize), looking through wrappers like setSettings.
func ruleOverlay(c *Ctx) {
	ci := buildConc(c)
	sm := settingsModel(c, false)
	rt := settingsRootType(sm)
	if rt == nil {
		c.undecided("C19-OVERLAY", "server", "settings type", token.NoPos, "settings parser not identified")
		return
	}
	n := 0
	for _, f := range ci.funcs {
		if ci.initFns[f] {
			continue
		}
		for _, b := range f.Blocks {
			for _, ins := range b.Instrs {
				st, ok := ins.(*ssa.Store)
				if !ok {
					continue
				}
				field, fa, ok := rootSharedField(st.Addr)
				if !ok || fa != st.Addr || !types.Identical(fa.Type().Underlying().(*types.Pointer).Elem(), rt) {
					continue
				}
				n++
				sl := backSlice(st.Val)
				derives := false
				for v := range sl {
					if u, ok := v.(*ssa.UnOp); ok && u.Op == token.MUL {
						if f2, _, ok := rootSharedField(u.X); ok && f2 == field {
							derives = true
						}
					}
				}
				c.check(derives, "C19-OVERLAY", funcName(f), "new settings are computed from the current settings", st.Pos(),
					"the value stored into "+field+" depends on a read of "+field, "the settings are overwritten with a value that does not derive from the current settings: entries absent from a payload lose their previous value")
				// function-valued parameters applied to the current settings
				for v := range sl {
					call, ok := v.(*ssa.Call)
					if !ok || call.Common().StaticCallee() != nil || call.Common().IsInvoke() {
						continue
					}
					p, ok := call.Common().Value.(*ssa.Parameter)
					if !ok || p.Parent() != f {
						continue
					}
					checkUpdateCallers(c, ci, f, p, 0)
				}
			}
		}
	}
	c.census("C19-OVERLAY", "stores into the settings field outside initialisation", n, 1)
}

// checkUpdateCallers: every function value bound to parameter p of f at f's call sites returns a value computed
// from its own parameter; otherwise the call site is a wholesale replacement and must belong to the init phase.
func checkUpdateCallers(c *Ctx, ci *concInfo, f *ssa.Function, p *ssa.Parameter, depth int) {
	idx := -1
	for i, q := range f.Params {
		if q == p {
			idx = i
		}
	}
	node := ci.g.Nodes[f]
	if idx < 0 || node == nil || depth > 3 {
		return
	}
	for _, e := range node.In {
		if e.Site == nil || e.Site.Common().StaticCallee() != f || idx >= len(e.Site.Common().Args) {
			continue
		}
		caller := e.Caller.Func
		arg := e.Site.Common().Args[idx]
		var fn *ssa.Function
		switch a := arg.(type) {
		case *ssa.MakeClosure:
			fn, _ = a.Fn.(*ssa.Function)
		case *ssa.Function:
			fn = a
		}
		desc := "update function passed by " + funcName(caller) + " overlays the current settings"
		if fn == nil {
			// a function value built by a helper (mergePayload(raw), overwriteWith(settings)): every function it can
			// return is judged; they must agree
			var fns []*ssa.Function
			seenFn := map[*ssa.Function]bool{}
			for _, h := range funcsBehind(arg, 0) {
				if h != nil && !seenFn[h] && len(h.Params) > 0 {
					seenFn[h] = true
					fns = append(fns, h)
				}
			}
			if len(fns) > 0 {
				allUse, noneUse := true, true
				for _, h := range fns {
					if updateUsesArg(h) {
						noneUse = false
					} else {
						allUse = false
					}
				}
				switch {
				case allUse:
					c.ok("C19-OVERLAY", funcName(caller), desc, e.Site.Pos(), "the result of every update function the helper returns depends on the settings it is given")
					continue
				case noneUse:
					wholesaleCallers(c, ci, caller, e.Site.Pos(), 0)
					continue
				}
			}
		}
		if fn == nil || len(fn.Params) == 0 {
			if q, isParam := arg.(*ssa.Parameter); isParam && q.Parent() == caller {
				checkUpdateCallers(c, ci, caller, q, depth+1) // handed through
				continue
			}
			c.undecided("C19-OVERLAY", funcName(caller), desc, e.Site.Pos(), "the function value applied to the current settings could not be resolved")
			continue
		}
		if updateUsesArg(fn) {
			c.ok("C19-OVERLAY", funcName(caller), desc, e.Site.Pos(), "the result of the update function depends on the settings it is given")
			continue
		}
		// a wholesale setter: acceptable only during initialisation; look through the wrapper's own callers
		wholesaleCallers(c, ci, caller, e.Site.Pos(), 0)
	}
}

func wholesaleCallers(c *Ctx, ci *concInfo, setter *ssa.Function, pos token.Pos, depth int) {
	node := ci.g.Nodes[setter]
	if ci.initFns[setter] {
		c.ok("C19-OVERLAY", funcName(setter), "wholesale replacement of the settings happens during initialisation only", pos, "constructor / Initialize")
		return
	}
	isRoot := false
	for _, h := range ci.handlers {
		if h == setter {
			isRoot = true
		}
	}
	for _, g := range ci.goRoots {
		if g == setter {
			isRoot = true
		}
	}
	if node == nil || depth > 3 || isRoot {
		c.finding("C19-OVERLAY", funcName(setter), "wholesale replacement of the settings happens during initialisation only", pos,
			"outside the initialisation phase the settings are replaced by a value that ignores the current settings: entries that a payload does not mention (or a null payload) reset to whatever that value holds instead of keeping their previous value")
		return
	}
	n := 0
	for _, e := range node.In {
		if e.Site == nil || e.Caller.Func == nil {
			continue
		}
		if _, isGo := e.Site.(*ssa.Go); isGo {
			continue
		}
		n++
		if ci.initFns[e.Caller.Func] {
			c.ok("C19-OVERLAY", funcName(e.Caller.Func), "wholesale replacement of the settings happens during initialisation only", e.Site.Pos(), "constructor / Initialize")
			continue
		}
		c.finding("C19-OVERLAY", funcName(e.Caller.Func), "wholesale replacement of the settings happens during initialisation only", e.Site.Pos(),
			"outside the initialisation phase "+funcName(e.Caller.Func)+" replaces the settings by a value that ignores the current settings: entries that a payload does not mention (or a null payload) reset instead of keeping their previous value")
	}
	_ = n
}

// ruleSyncUpdate (C14-ORDER): the workspace's picture of the documents (its resolved include tree) is brought
// up to date synchronously, on the dispatch goroutine, in the order of the notifications.  A function that
// writes that tree must therefore not be reachable from a goroutine the server starts: updates made from
// background goroutines are applied in scheduling order (an older text can overwrite a newer one for good)
// and a request handled right after a notification is answered from the state before it.
func ruleSyncUpdate(c *Ctx) {
	ci := buildConc(c)
	wpk := c.P.SSAPkg("internal/workspace")
	isTree := func(t types.Type) bool { return typeHasSuffix(t, "include.ResolvedJournal") }
	writesTree := map[*ssa.Function]token.Pos{}
	for _, f := range ci.funcs {
		if f.Pkg != wpk || ci.initFns[f] {
			continue
		}
		for _, b := range f.Blocks {
			for _, ins := range b.Instrs {
				var addr ssa.Value
				switch x := ins.(type) {
				case *ssa.Store:
					addr = x.Addr
				case *ssa.MapUpdate:
					if ld, ok := x.Map.(*ssa.UnOp); ok {
						addr = ld.X
					}
				case *ssa.Call:
					if bi, ok := x.Call.Value.(*ssa.Builtin); ok && bi.Name() == "delete" && len(x.Call.Args) > 0 {
						if ld, ok := x.Call.Args[0].(*ssa.UnOp); ok {
							addr = ld.X
						}
					}
				}
				for addr != nil {
					fa, ok := addr.(*ssa.FieldAddr)
					if !ok {
						break
					}
					bt := fa.X.Type().Underlying().(*types.Pointer).Elem()
					ft := fa.Type().Underlying().(*types.Pointer).Elem()
					if isTree(bt) || (typeHasSuffix(bt, "workspace.Workspace") && isTree(ft)) {
						if _, fresh := fa.X.(*ssa.Alloc); !fresh {
							if _, seen := writesTree[f]; !seen {
								writesTree[f] = ins.Pos()
							}
						}
						break
					}
					addr = fa.X
				}
			}
		}
	}
	var fs []*ssa.Function
	for f := range writesTree {
		fs = append(fs, f)
	}
	sort.Slice(fs, func(i, j int) bool { return funcName(fs[i]) < funcName(fs[j]) })
	c.census("C14-ORDER", "workspace functions that write the resolved include tree", len(fs), 2)
	for _, f := range fs {
		c.check(!ci.reachG[f], "C14-ORDER", funcName(f), "the workspace tree is only updated on the dispatch goroutine", writesTree[f],
			"not reachable from a goroutine started by the server", funcName(f)+" writes the workspace's include tree and is reachable from a goroutine the server starts: updates are then applied in scheduling order instead of notification order, and a request that follows a notification is answered from the state before it")
	}
}

// rulePairedFields (I-PAIR): two fields of one struct that hold the same set in two representations grow in
// the same functions (frozen table, confirmed by reading: AccountIndex.All is the list and AccountIndex.ByPrefix
// the per-prefix view of the same account names; the completion lookup trusts ByPrefix whenever the prefix key
// exists, so a name that is only in All is not offered after its parent prefix).
func rulePairedFields(c *Ctx) {
	pairs := []struct{ typ, a, b, why string }{
		{"analyzer.AccountIndex", "All", "ByPrefix", "an account name that is appended to All but not registered under its prefixes in ByPrefix is missing from completion as soon as the user has typed a parent prefix that some other account also has"},
	}
	for _, pr := range pairs {
		grows := map[*ssa.Function]map[string]token.Pos{}
		for _, f := range c.P.ModuleFuncs() {
			for _, b := range f.Blocks {
				for _, ins := range b.Instrs {
					var fa *ssa.FieldAddr
					switch x := ins.(type) {
					case *ssa.Store:
						if a, ok := x.Addr.(*ssa.FieldAddr); ok {
							// growth: the stored value is an append (not a fresh make / literal of the constructor)
							if call, ok := x.Val.(*ssa.Call); ok {
								if bi, ok := call.Call.Value.(*ssa.Builtin); ok && bi.Name() == "append" {
									fa = a
								}
							}
						}
					case *ssa.MapUpdate:
						if ld, ok := x.Map.(*ssa.UnOp); ok {
							if a, ok := ld.X.(*ssa.FieldAddr); ok {
								fa = a
							}
						}
					}
					if fa == nil {
						continue
					}
					bt := fa.X.Type().Underlying().(*types.Pointer).Elem()
					if !typeHasSuffix(bt, pr.typ) {
						continue
					}
					name := bt.Underlying().(*types.Struct).Field(fa.Field).Name()
					if name != pr.a && name != pr.b {
						continue
					}
					if grows[f] == nil {
						grows[f] = map[string]token.Pos{}
					}
					if _, seen := grows[f][name]; !seen {
						grows[f][name] = ins.Pos()
					}
				}
			}
		}
		var fs []*ssa.Function
		for f := range grows {
			fs = append(fs, f)
		}
		sort.Slice(fs, func(i, j int) bool { return funcName(fs[i]) < funcName(fs[j]) })
		for _, f := range fs {
			g := grows[f]
			_, ha := g[pr.a]
			_, hb := g[pr.b]
			pos := g[pr.a]
			if !ha {
				pos = g[pr.b]
			}
			c.check(ha && hb, "I-PAIR", funcName(f), shortQual(pr.typ)+"."+pr.a+" and "+pr.b+" grow together", pos,
				"both representations are extended in this function", "only one of "+pr.a+" / "+pr.b+" is extended here: "+pr.why)
		}
		c.census("I-PAIR", "functions extending "+shortQual(pr.typ), len(fs), 1)
	}
}

// ruleBump (C13-BUMP): a new version of a document is announced by bumping its per-document counter; when the
// bump's result is used (it is the version handed to the analysis of the new text), every path from the bump to
// the exit of the function starts that analysis - a `go` statement or a call that receives the new version.  A
// bump whose result is discarded (didClose: supersede what is in flight) carries no obligation.
func ruleBump(c *Ctx) {
	ci := buildConc(c)
	// the bump functions: they increment a per-document counter and return the new value
	bump := map[*ssa.Function]bool{}
	for _, f := range ci.funcs {
		for _, b := range f.Blocks {
			for _, ins := range b.Instrs {
				if mu, ok := ins.(*ssa.MapUpdate); ok {
					mt, _ := mu.Map.Type().Underlying().(*types.Map)
					if _, isBin := mu.Value.(*ssa.BinOp); isBin && mt != nil && perDocumentCounter(mt) && f.Signature.Results().Len() == 1 {
						bump[f] = true
					}
				}
			}
		}
	}
	c.census("C13-BUMP", "functions that bump a per-document version", len(bump), 1)
	// wrappers: functions that hand the bumped version on to their caller in every result they return (a job
	// record built around the new version); their call sites are judged like those of the bump itself
	for changed, round := true, 0; changed && round < 3; round++ {
		changed = false
		for _, f := range ci.funcs {
			if bump[f] || f.Signature.Results().Len() != 1 {
				continue
			}
			nRet, all := 0, true
			for _, b := range f.Blocks {
				r, ok := b.Instrs[len(b.Instrs)-1].(*ssa.Return)
				if !ok {
					continue
				}
				nRet++
				has := false
				for v := range backSlice(unspillResult(r.Results[0], b)) {
					if call, ok := v.(*ssa.Call); ok && call.Parent() == f && bump[call.Call.StaticCallee()] {
						has = true
					}
				}
				if !has {
					all = false
				}
			}
			if nRet > 0 && all {
				bump[f] = true
				changed = true
			}
		}
	}
	n := 0
	for _, f := range ci.funcs {
		for _, b := range f.Blocks {
			for i, ins := range b.Instrs {
				call, ok := ins.(*ssa.Call)
				if !ok || !bump[call.Call.StaticCallee()] {
					continue
				}
				if refs := call.Referrers(); refs == nil || len(*refs) == 0 {
					continue // result discarded: superseding only
				}
				n++
				receives := func(x ssa.Instruction) bool {
					if r, isRet := x.(*ssa.Return); isRet && bump[f] {
						for _, rv := range r.Results {
							if backSlice(unspillResult(rv, r.Block()))[call] {
								return true // handed on to the caller, where the same obligation applies
							}
						}
						return false
					}
					ci2, ok := x.(ssa.CallInstruction)
					if !ok || x == ssa.Instruction(call) {
						return false
					}
					for _, a := range ci2.Common().Args {
						if a == ssa.Value(call) || backSlice(a)[call] {
							return true
						}
					}
					return false
				}
				// the version may be passed in the same instruction (argument of the analysis call itself)
				bad := escapesFlags(b, i+1, receives)
				c.check(!bad, "C13-BUMP", funcName(f), "a bumped version is handed to an analysis on every path", call.Pos(),
					"every path from the version bump to the exit starts the analysis of that version",
					"the per-document version is bumped - which supersedes the analysis in flight - on a path that returns without starting an analysis of the new version: the diagnostics of the latest text are never published")
			}
		}
	}
	c.census("C13-BUMP", "version bumps whose result is used", n, 2)
}

// rulePull (C19-PULL): a configuration-change notification always leads to a pull of the configuration: every
// path through the handler starts (go / call) something that reaches the client's Configuration request.
func rulePull(c *Ctx) {
	ci := buildConc(c)
	var h *ssa.Function
	if fd := c.P.handlerByParam("protocol.DidChangeConfigurationParams"); fd != nil {
		h = c.P.ssaOf(fd)
	}
	if h == nil {
		c.undecided("C19-PULL", "server", "configuration-change handler", token.NoPos, "handler taking *protocol.DidChangeConfigurationParams not found")
		return
	}
	reachesPull := func(root *ssa.Function) bool {
		for f := range Reach(ci.g, []*ssa.Function{root}, false) {
			for _, b := range f.Blocks {
				for _, ins := range b.Instrs {
					if call, ok := ins.(ssa.CallInstruction); ok && call.Common().IsInvoke() && call.Common().Method.Name() == "Configuration" &&
						strings.HasSuffix(types.TypeString(call.Common().Value.Type(), nil), "protocol.Client") {
						return true
					}
				}
			}
		}
		return false
	}
	starts := func(x ssa.Instruction) bool {
		call, ok := x.(ssa.CallInstruction)
		if !ok {
			return false
		}
		for _, t := range ci.calleesOf(call) {
			if inModule(t) && reachesPull(t) {
				return true
			}
		}
		return false
	}
	n := 0
	for _, b := range h.Blocks {
		for _, ins := range b.Instrs {
			if starts(ins) {
				n++
			}
		}
	}
	c.census("C19-PULL", "starts of a configuration pull in the change handler", n, 1)
	bad := escapesFlags(h.Blocks[0], 0, starts)
	// the same for the `initialized` notification: the first pull of the session is started on every path through
	// the handler - with or without a workspace root (C19-m31: an early return "nothing to initialise without a
	// workspace" in front of the go statement: a single-file session never asks for its configuration)
	if fd := c.P.handlerByParam("protocol.InitializedParams"); fd != nil {
		if hi := c.P.ssaOf(fd); hi != nil && len(hi.Blocks) > 0 {
			ni := 0
			for _, b := range hi.Blocks {
				for _, ins := range b.Instrs {
					if starts(ins) {
						ni++
					}
				}
			}
			if ni > 0 {
				c.check(!escapesFlags(hi.Blocks[0], 0, starts), "C19-PULL", funcName(hi), "the initialized notification pulls the configuration on every path", hi.Pos(),
					"every path through the handler starts a pull of the client's configuration",
					"the initialized handler can return without starting the first pull of the configuration (an early return for a session without a workspace root): such a session keeps the defaults, whatever the client would answer to workspace/configuration, until some later change notification arrives")
			}
		}
	}
	c.check(!bad, "C19-PULL", funcName(h), "every configuration change pulls the configuration", h.Pos(),
		"every path through the handler starts a pull of the client's configuration",
		"the configuration-change handler can return without pulling the configuration (a throttle, a cache, an early return): a change that arrives on such a path never takes effect")
	// ... and the pull that was started asks the client: in the function that holds the Configuration request a
	// return that is not preceded by the request depends only on what was fixed during initialisation (no client,
	// no capability) - never on state that handlers or other refreshes change (a refresh-in-flight flag, a
	// time stamp, a generation): the refresh that is skipped may be the one that carries the latest change.
	mutable := fieldsMutatedOutsideInit(ci)
	nPull := 0
	for f := range Reach(ci.g, []*ssa.Function{h}, false) {
		if !inModule(f) {
			continue
		}
		var pulls []ssa.Instruction
		for _, b := range f.Blocks {
			for _, ins := range b.Instrs {
				if call, ok := ins.(ssa.CallInstruction); ok && call.Common().IsInvoke() && call.Common().Method.Name() == "Configuration" &&
					strings.HasSuffix(types.TypeString(call.Common().Value.Type(), nil), "protocol.Client") {
					pulls = append(pulls, ins)
				}
			}
		}
		// a function between the handler and the refresh that starts the pull (`scheduleRefresh`: a flag test, then
		// `go s.refresh()`) is judged like the refresh itself: its returns that are not preceded by the start
		if len(pulls) == 0 && f != h {
			for _, b := range f.Blocks {
				for _, ins := range b.Instrs {
					if starts(ins) {
						pulls = append(pulls, ins)
					}
				}
			}
		}
		if len(pulls) == 0 {
			continue
		}
		nRet := 0
		for _, b := range f.Blocks {
			ret, ok := lastInstr(b).(*ssa.Return)
			if !ok {
				continue
			}
			nRet++
			after := false
			for _, pl := range pulls {
				if pl.Block() == b || pl.Block().Dominates(b) {
					after = true
				}
			}
			if after {
				continue
			}
			nPull++
			badWhat := ""
			for _, cc := range controlCondsPol(b) {
				condSlice := map[ssa.Value]bool{}
				sliceWithControl(cc.Cond, 0, condSlice) // a verdict helper (`if !s.beginRefresh() { return }`) decides by its own tests
				for v := range condSlice {
					var addr ssa.Value
					switch x := v.(type) {
					case *ssa.UnOp:
						if x.Op == token.MUL {
							addr = x.X
						}
					case *ssa.Call:
						if len(x.Call.Args) > 0 && !x.Call.IsInvoke() {
							addr = x.Call.Args[0] // method on a field (atomic / sync.Map / mutex-protected helper)
						}
					}
					if addr == nil {
						continue
					}
					if field, _, ok := rootSharedField(addr); ok && mutable[field] {
						badWhat = field
					}
				}
			}
			c.check(badWhat == "", "C19-PULL", funcName(f), fmt.Sprintf("return #%d before the configuration request depends on initialisation only", nRet), ret.Pos(),
				"the refresh gives up before asking the client only for reasons fixed at initialisation (no client, no capability)",
				"a configuration refresh can end before it asks the client depending on "+badWhat+", which changes while the server runs (a refresh-in-flight flag, a throttle, a generation): the refresh that gives up may be the one started for the latest change, whose values then never take effect")
		}
	}
	c.census("C19-PULL", "returns before the configuration request in the refresh", nPull, 1)
}

// fieldsMutatedOutsideInit: fields of the shared structs that are stored to - or, for sync / atomic typed fields,
// have a mutating method called on them - in a function that does not belong to the initialisation phase.
func fieldsMutatedOutsideInit(ci *concInfo) map[string]bool {
	out := map[string]bool{}
	mutating := map[string]bool{"Store": true, "Swap": true, "CompareAndSwap": true, "Add": true, "Delete": true, "LoadOrStore": true, "LoadAndDelete": true, "CompareAndDelete": true, "Clear": true, "And": true, "Or": true}
	for _, f := range ci.funcs {
		if ci.initFns[f] {
			continue
		}
		for _, b := range f.Blocks {
			for _, ins := range b.Instrs {
				switch x := ins.(type) {
				case *ssa.Store:
					if field, fa, ok := rootSharedField(x.Addr); ok {
						if _, fresh := fa.X.(*ssa.Alloc); !fresh {
							out[field] = true
						}
					}
				case *ssa.MapUpdate:
					if ld, ok := x.Map.(*ssa.UnOp); ok {
						if field, _, ok := rootSharedField(ld.X); ok {
							out[field] = true
						}
					}
				case ssa.CallInstruction:
					cm := x.Common()
					if cm.IsInvoke() || len(cm.Args) == 0 {
						continue
					}
					cal := cm.StaticCallee()
					if cal == nil || cal.Signature.Recv() == nil || !mutating[cal.Name()] || !isSyncType(cal.Signature.Recv().Type()) {
						continue
					}
					if field, _, ok := rootSharedField(cm.Args[0]); ok {
						out[field] = true
					}
				}
			}
		}
	}
	return out
}

// updateUsesArg: every value the update function returns is computed from its (last) parameter.
func updateUsesArg(fn *ssa.Function) bool {
	uses := true
	for _, b := range fn.Blocks {
		for _, ins := range b.Instrs {
			if r, ok := ins.(*ssa.Return); ok && len(r.Results) == 1 {
				if !backSlice(unspillResult(r.Results[0], b))[ssa.Value(fn.Params[len(fn.Params)-1])] {
					uses = false
				}
			}
		}
	}
	return uses
}

func structOfField(field string) string {
	if i := strings.LastIndex(field, "."); i >= 0 {
		return field[:i]
	}
	return field
}
