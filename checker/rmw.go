package main

// C-RMW: read-modify-write of lock-protected state happens inside ONE critical section.
//
// A value stored into a field of a lock-owning struct (or put into a map held by such a field, or
// stored into one of its sync.Map fields) is traced backwards through data flow - within the function,
// into the callees whose results it uses, and out to the callers whose arguments it uses.  If that slice
// contains a read of the SAME field that was made in a different critical section (another acquisition
// of the lock, or another sync.Map operation), the update is computed from a state that may have been
// replaced in between: when some writer of the field runs on a server-started goroutine, one of two
// concurrent updates is lost.  (This is the shape of the settings refresh repaired in 3323558.)

import (
	"fmt"
	"os"
	"go/token"
	"go/types"
	"sort"
	"strings"

	"golang.org/x/tools/go/ssa"
)

type rmwEvent struct {
	field string          // "server.Server.settings"
	write bool
	ins   ssa.Instruction // the load / store / map update / sync.Map call
	val   ssa.Value       // read: the value obtained; write: the value stored
	fn    *ssa.Function
	cs    ssa.Instruction // acquisition that opens the critical section (the sync.Map call itself); nil = lock held on entry
	lock  lockID
	pos   token.Pos
	key   ssa.Value // element key for map / sync.Map accesses; nil = the whole field
}

// rootSharedField: addr is (rooted at) a field of a shared struct reached through a pointer.
func rootSharedField(addr ssa.Value) (string, *ssa.FieldAddr, bool) {
	var last *ssa.FieldAddr
	for {
		switch a := addr.(type) {
		case *ssa.FieldAddr:
			last = a
			addr = a.X
			continue
		case *ssa.IndexAddr:
			addr = a.X
			continue
		}
		break
	}
	if last == nil {
		return "", nil, false
	}
	if _, fresh := last.X.(*ssa.Alloc); fresh {
		return "", nil, false // object under construction
	}
	pt, ok := last.X.Type().Underlying().(*types.Pointer)
	if !ok {
		return "", nil, false
	}
	sname := shortQual(types.TypeString(pt.Elem(), nil))
	if !sharedStructs[sname] {
		return "", nil, false
	}
	st, ok := pt.Elem().Underlying().(*types.Struct)
	if !ok {
		return "", nil, false
	}
	return sname + "." + st.Field(last.Field).Name(), last, true
}

func baseLock(l lockID) lockID { return lockID(strings.TrimSuffix(string(l), "(R)")) }

// lockFor: a lock of the field's own struct that is certainly held at ins.
func (ci *concInfo) lockFor(field string, ins ssa.Instruction) (lockID, bool) {
	owner := field[:strings.LastIndex(field, ".")]
	var cands []string
	for l := range ci.must[ins] {
		b := baseLock(l)
		if strings.HasPrefix(string(b), owner+".") {
			cands = append(cands, string(b))
		}
	}
	if len(cands) == 0 {
		return "", false
	}
	sort.Strings(cands)
	return lockID(cands[0]), true
}

// acquisitionOf: the nearest acquisition of lock l that dominates ins in its function (nil: held on entry).
func acquisitionOf(ins ssa.Instruction, l lockID) ssa.Instruction {
	b := ins.Block()
	idx := len(b.Instrs)
	for i, x := range b.Instrs {
		if x == ins {
			idx = i
		}
	}
	for b != nil {
		for i := idx - 1; i >= 0; i-- {
			call, ok := b.Instrs[i].(ssa.CallInstruction)
			if !ok {
				continue
			}
			if _, isDefer := b.Instrs[i].(*ssa.Defer); isDefer {
				continue
			}
			if id, dir, _ := lockOp(call); dir > 0 && id == l {
				return b.Instrs[i]
			}
		}
		b = b.Idom()
		if b != nil {
			idx = len(b.Instrs)
		}
	}
	return nil
}

func syncMapOp(call ssa.CallInstruction) (string, bool) {
	cal := call.Common().StaticCallee()
	if cal == nil || cal.Signature.Recv() == nil || types.TypeString(cal.Signature.Recv().Type(), nil) != "*sync.Map" {
		return "", false
	}
	return cal.Name(), true
}

func collectRMWEvents(ci *concInfo) []rmwEvent {
	var evs []rmwEvent
	for _, f := range ci.funcs {
		if ci.initFns[f] {
			continue
		}
		for _, b := range f.Blocks {
			for _, ins := range b.Instrs {
				switch x := ins.(type) {
				case *ssa.Store:
					if field, _, ok := rootSharedField(x.Addr); ok {
						if l, held := ci.lockFor(field, ins); held {
							evs = append(evs, rmwEvent{field, true, ins, x.Val, f, acquisitionOf(ins, l), l, x.Pos(), nil})
						}
					}
				case *ssa.UnOp:
					if x.Op != token.MUL {
						continue
					}
					if field, _, ok := rootSharedField(x.X); ok {
						if l, held := ci.lockFor(field, ins); held {
							evs = append(evs, rmwEvent{field, false, ins, x, f, acquisitionOf(ins, l), l, x.Pos(), nil})
						}
					}
				case *ssa.MapUpdate:
					// m[k] = v where m was loaded from a shared field
					if ld, ok := x.Map.(*ssa.UnOp); ok && ld.Op == token.MUL {
						if field, _, ok := rootSharedField(ld.X); ok {
							if l, held := ci.lockFor(field, ins); held {
								evs = append(evs, rmwEvent{field, true, ins, x.Value, f, acquisitionOf(ins, l), l, x.Pos(), x.Key})
							}
						}
					}
				case *ssa.Lookup:
					// m[k] where m was loaded from a shared field
					if ld, ok := x.X.(*ssa.UnOp); ok && ld.Op == token.MUL {
						if field, _, ok := rootSharedField(ld.X); ok {
							if l, held := ci.lockFor(field, ins); held {
								evs = append(evs, rmwEvent{field, false, ins, x, f, acquisitionOf(ins, l), l, x.Pos(), x.Index})
							}
						}
					}
				case *ssa.Call:
					op, ok := syncMapOp(x)
					if !ok || len(x.Call.Args) == 0 {
						continue
					}
					field, _, ok := rootSharedField(x.Call.Args[0])
					if !ok {
						continue
					}
					switch op {
					case "Load":
						if len(x.Call.Args) == 2 {
							evs = append(evs, rmwEvent{field, false, ins, x, f, ins, "", x.Pos(), x.Call.Args[1]})
						}
					case "Store", "Swap":
						if len(x.Call.Args) == 3 {
							evs = append(evs, rmwEvent{field, true, ins, x.Call.Args[2], f, ins, "", x.Pos(), x.Call.Args[1]})
						}
					}
				}
			}
		}
	}
	return evs
}

// sliceUp: backSlice of v, continued through the parameters of its function into the arguments at the
// function's call sites (bounded).
func sliceUp(ci *concInfo, v ssa.Value, f *ssa.Function) map[ssa.Value]bool {
	all := map[ssa.Value]bool{}
	type item struct {
		v     ssa.Value
		f     *ssa.Function
		depth int
		path  []int
	}
	work := []item{{v, f, 0, nil}}
	seen := map[string]bool{}
	for len(work) > 0 {
		it := work[0]
		work = work[1:]
		k := fmt.Sprintf("%p|%v", it.v, it.path)
		if seen[k] {
			continue
		}
		seen[k] = true
		sl, pp := backSlicePath(it.v, it.path)
		for x := range sl {
			all[x] = true
			p, ok := x.(*ssa.Parameter)
			if !ok || p.Parent() != it.f || it.depth >= 3 {
				continue
			}
			idx := -1
			for i, q := range it.f.Params {
				if q == p {
					idx = i
				}
			}
			n := ci.g.Nodes[it.f]
			if idx < 0 || n == nil {
				continue
			}
			paths := pp[p]
			if len(paths) == 0 {
				paths = [][]int{nil}
			}
			for _, e := range n.In {
				if e.Site == nil || e.Caller.Func == nil {
					continue
				}
				if _, isGo := e.Site.(*ssa.Go); isGo {
					continue
				}
				if ci.initFns[e.Caller.Func] {
					continue // initialisation phase (constructor, Initialize): no server-started goroutine exists yet
				}
				if e.Caller.Func == f && it.depth > 0 {
					continue // back into the function of the store through recursion: another activation, not this update
				}
				args := e.Site.Common().Args
				ai := idx
				if e.Site.Common().IsInvoke() {
					// receiver is not part of Args for interface calls
					if idx == 0 {
						continue
					}
					ai = idx - 1
				}
				if ai < len(args) {
					for _, pth := range paths {
						work = append(work, item{args[ai], e.Caller.Func, it.depth + 1, pth})
					}
				}
			}
		}
	}
	return all
}

// sameElement: both accesses concern the whole field, or the same element of the map it holds.
func sameElement(a, b ssa.Value) bool {
	if a == nil || b == nil {
		return a == nil && b == nil
	}
	return stripConv(a) == stripConv(b)
}

func stripConv(v ssa.Value) ssa.Value {
	for {
		switch x := v.(type) {
		case *ssa.ChangeType:
			v = x.X
		case *ssa.Convert:
			v = x.X
		case *ssa.MakeInterface:
			v = x.X
		default:
			return v
		}
	}
}

func ruleRMW(c *Ctx) {
	ci := buildConc(c)
	evs := collectRMWEvents(ci)
	writersG := map[string]bool{}
	reads := map[ssa.Value]rmwEvent{}
	nW := 0
	for _, e := range evs {
		if e.write {
			nW++
			if ci.reachG[e.fn] {
				writersG[e.field] = true
			}
		} else {
			reads[e.val] = e
		}
	}
	c.census("C-RMW", "stores into lock-protected shared state (field, map element, sync.Map entry)", nW, 8)
	var ws []rmwEvent
	for _, e := range evs {
		if e.write {
			ws = append(ws, e)
		}
	}
	sort.Slice(ws, func(i, j int) bool { return ws[i].pos < ws[j].pos })
	for _, w := range ws {
		if os.Getenv("HL_DBGRMW") != "" {
			fmt.Printf("RMW write %s in %s at %s cs=%v\n", w.field, funcName(w.fn), ci.p.pos(w.pos), w.cs != nil)
		}
		desc := "update of " + w.field + " uses no state read in another critical section"
		sl := sliceUp(ci, w.val, w.fn)
		own := backSlice(w.val)
		bad := ""
		nSame := 0
		for v := range sl {
			r, ok := reads[v]
			if !ok || r.field != w.field || !sameElement(r.key, w.key) {
				continue
			}
			// element keys are compared as SSA values, which only denote the same runtime value within one
			// activation of the function: keyed accesses are related only inside the function of the store
			if w.key != nil && (r.fn != w.fn || !own[v]) {
				continue
			}
			if r.cs == nil || w.cs == nil {
				nSame++ // the lock is held by a caller across the function: part of the caller's critical section
				continue
			}
			if r.cs == w.cs {
				nSame++
				continue
			}
			if !writersG[w.field] {
				continue // every writer runs on the serial dispatch goroutine: no update can intervene
			}
			if os.Getenv("HL_DBGRMW") != "" {
				debugRMW(ci, w, r)
			}
			bad = fmt.Sprintf("the value stored at %s derives from a read of %s at %s made in a different critical section (lock released in between): an update made by another goroutine between the two is lost",
				ci.p.pos(w.pos), w.field, ci.p.pos(r.pos))
		}
		c.check(bad == "", "C-RMW", funcName(w.fn), desc, w.pos,
			fmt.Sprintf("the stored value depends on %d read(s) of the field, all in the critical section of the store", nSame), bad)
	}
}

func debugRMW(ci *concInfo, w rmwEvent, r rmwEvent) {
	// print one dependency chain from w.val to r.val (intra-function only)
	type node struct {
		v    ssa.Value
		prev *node
	}
	seen := map[ssa.Value]bool{}
	q := []*node{{w.val, nil}}
	for len(q) > 0 {
		n := q[0]
		q = q[1:]
		if seen[n.v] {
			continue
		}
		seen[n.v] = true
		if n.v == r.val {
			for x := n; x != nil; x = x.prev {
				fmt.Printf("   <- %s = %s\n", x.v.Name(), x.v.String())
			}
			return
		}
		for d := range backSlice(n.v) {
			if d != n.v && !seen[d] {
				q = append(q, &node{d, n})
			}
		}
	}
}
