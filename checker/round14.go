package main

import (
	"go/token"
	"go/types"
	"strings"

	"golang.org/x/tools/go/ssa"
)

// Rules of round 14.

// ruleAncestorWalk (S-ANCESTOR): a walk up a hierarchy of names.  A string carried round a loop whose next value is a
// prefix of itself cut at an occurrence of a separator (`name = name[:i]`) visits the ancestors of the name one by one
// only if the cut is made at the LAST occurrence: with strings.Index / IndexByte / IndexRune (first occurrence) the
// second iteration holds the top-level segment, which contains no separator any more - every ancestor between the
// name itself and its top-level segment is skipped.  Dually a suffix walk `name = name[i+1:]` with a LastIndex* result
// jumps to the last segment at once.  The rule is a contradiction rule: such a loop can run its body at most twice, so
// it is either not a loop or not the walk it was meant to be.  It is armed only where each iteration looks the carried
// name up (map index, call with the name as an argument) - that is what makes the skipped ancestors observable (an
// account below a declared account of two or more segments is reported as undeclared; C18-m27, and the same rewrite of
// the declared-ancestor lookup in C18-m2, m4, m24 with other slips).
func ruleAncestorWalk(c *Ctx) {
	if c.ranOnce("ruleAncestorWalk") {
		return
	}
	n, walks := 0, 0
	for _, f := range c.P.ModuleFuncs() {
		for _, b := range f.Blocks {
			for _, ins := range b.Instrs {
				phi, ok := ins.(*ssa.Phi)
				if !ok {
					break
				}
				if bt, ok := phi.Type().Underlying().(*types.Basic); !ok || bt.Info()&types.IsString == 0 {
					continue
				}
				// edges of the phi that are slices of the phi itself
				for _, e := range phi.Edges {
					sl, ok := e.(*ssa.Slice)
					if !ok || !sameThroughPhi(sl.X, phi) {
						continue
					}
					kind := ""
					var idx ssa.Value
					switch {
					case sl.Low == nil && sl.High != nil:
						kind, idx = "prefix", sl.High
					case sl.High == nil && sl.Low != nil:
						kind, idx = "suffix", sl.Low
					default:
						continue
					}
					call := indexCallBehind(idx, 0)
					if call == nil || len(call.Call.Args) == 0 || !sameThroughPhi(call.Call.Args[0], phi) {
						continue
					}
					walks++
					name := call.Call.StaticCallee().Name()
					last := len(name) >= 9 && name[:9] == "LastIndex"
					if (kind == "prefix") == last {
						// prefix at the last occurrence / suffix behind the first one: a proper walk
						continue
					}
					if !lookedUpInLoop(phi) {
						continue
					}
					n++
					c.finding("S-ANCESTOR", funcName(f), "a name carried round a loop is cut to its "+kind+" at the "+map[bool]string{true: "last", false: "first"}[last]+" separator", sl.Pos(),
						"the loop looks a name up and then replaces it by its "+kind+" cut at the result of strings."+name+": after one step nothing is left to cut, so the walk visits the name and its outermost segment only and every level in between is skipped - an account below a declared account of two or more segments is no longer found to be declared (a walk up the ancestors cuts a prefix at strings.LastIndex)")
				}
			}
		}
	}
	if n == 0 {
		c.ok("S-ANCESTOR", "module", "no degenerate walk over the segments of a name", token.NoPos, "loop-carried cuts at a separator judged: "+itoa(walks))
	}
}

// sameThroughPhi: v is the phi, or a value that is the phi on every path (a phi all of whose edges are the phi or
// values derived by re-slicing that keeps it - not followed), or a conversion of it.
func sameThroughPhi(v ssa.Value, phi *ssa.Phi) bool {
	v = stripConv(v)
	if v == phi {
		return true
	}
	if p2, ok := v.(*ssa.Phi); ok {
		// a phi further down the loop that merges the header phi with itself
		for _, e := range p2.Edges {
			if stripConv(e) != phi && e != p2 {
				return false
			}
		}
		return len(p2.Edges) > 0
	}
	return false
}

// indexCallBehind: the strings.Index* / LastIndex* call an index expression comes from: the call itself, the call
// plus or minus a constant, or a phi one of whose edges is such a value (the other edges are the guard's way out).
func indexCallBehind(v ssa.Value, depth int) *ssa.Call {
	if depth > 4 {
		return nil
	}
	v = stripConv(v)
	switch x := v.(type) {
	case *ssa.Call:
		if isIndexResult(x) && x.Call.StaticCallee().Pkg.Pkg.Path() == "strings" {
			return x
		}
	case *ssa.BinOp:
		if x.Op == token.ADD || x.Op == token.SUB {
			if _, ok := x.Y.(*ssa.Const); ok {
				return indexCallBehind(x.X, depth+1)
			}
			if _, ok := x.X.(*ssa.Const); ok && x.Op == token.ADD {
				return indexCallBehind(x.Y, depth+1)
			}
		}
	case *ssa.Phi:
		for _, e := range x.Edges {
			if cl := indexCallBehind(e, depth+1); cl != nil {
				return cl
			}
		}
	}
	return nil
}

// lookedUpInLoop: the carried name is used as a map key or handed to a call other than the index search and
// len/slicing - each iteration "visits" the name.
func lookedUpInLoop(phi *ssa.Phi) bool {
	seen := map[ssa.Value]bool{}
	var visit func(v ssa.Value) bool
	visit = func(v ssa.Value) bool {
		if seen[v] {
			return false
		}
		seen[v] = true
		refs := v.Referrers()
		if refs == nil {
			return false
		}
		for _, r := range *refs {
			switch x := r.(type) {
			case *ssa.Lookup:
				if x.Index == v {
					return true
				}
			case *ssa.Call:
				if isIndexResult(x) {
					continue
				}
				if b, ok := x.Call.Value.(*ssa.Builtin); ok && b.Name() == "len" {
					continue
				}
				return true
			case *ssa.Phi:
				if x != phi && visit(x) {
					return true
				}
			case *ssa.ChangeType:
				if visit(x) {
					return true
				}
			case *ssa.Convert:
				if visit(x) {
					return true
				}
			case *ssa.MakeInterface:
				if visit(x) {
					return true
				}
			}
		}
		return false
	}
	return visit(phi)
}

// ruleParserAlias (P-ALIAS): every node of the syntax tree is storage of its own.  The address of a field of the
// parser (or of something inside such a field) must not leave the parser as a value - returned, or stored somewhere:
// a node that is "built in place" in a scratch field of the parser to save an allocation is the same object for
// every entry that is parsed afterwards, so the structure recorded for one entry is overwritten by the next one
// (C03-m28: `p.date = ast.Date{...}; return &p.date` - the caller that keeps the pointer, tx.Date2, reports the last
// date of the file).  Taking the address for a method call on the field (p.lexer.Next()) is not an escape.
func ruleParserAlias(c *Ctx) {
	if c.ranOnce("ruleParserAlias") {
		return
	}
	ppk := c.P.SSAPkg("internal/parser")
	n, seenAddr := 0, 0
	for _, f := range c.P.ModuleFuncs() {
		top := f
		for top.Parent() != nil {
			top = top.Parent()
		}
		if top.Pkg != ppk {
			continue
		}
		for _, b := range f.Blocks {
			for _, ins := range b.Instrs {
				fa, ok := ins.(*ssa.FieldAddr)
				if !ok {
					continue
				}
				// rooted in a field of the parser?
				root := fa
				for {
					x, ok := root.X.(*ssa.FieldAddr)
					if !ok {
						break
					}
					root = x
				}
				pt, ok := root.X.Type().Underlying().(*types.Pointer)
				if !ok || !typeHasSuffix(pt.Elem(), "parser.Parser") {
					continue
				}
				seenAddr++
				seen := map[ssa.Value]bool{}
				var escapes func(v ssa.Value) (token.Pos, string)
				escapes = func(v ssa.Value) (token.Pos, string) {
					if seen[v] || v.Referrers() == nil {
						return token.NoPos, ""
					}
					seen[v] = true
					for _, r := range *v.Referrers() {
						switch x := r.(type) {
						case *ssa.Return:
							return x.Pos(), "returned"
						case *ssa.Store:
							if x.Val == v {
								return x.Pos(), "stored"
							}
						case *ssa.Phi:
							if p, how := escapes(x); how != "" {
								return p, how
							}
						case *ssa.ChangeType:
							if p, how := escapes(x); how != "" {
								return p, how
							}
						case *ssa.MakeInterface:
							if p, how := escapes(x); how != "" {
								return p, how
							}
						}
					}
					return token.NoPos, ""
				}
				if pos, how := escapes(fa); how != "" {
					n++
					if !pos.IsValid() {
						pos = fa.Pos()
					}
					c.finding("P-ALIAS", funcName(f), "the address of parser field "+fieldVarOfAddr(root).Name()+" is "+how, pos,
						"the address of (a part of) the parser's own field "+fieldVarOfAddr(root).Name()+" is "+how+" as a value: whoever keeps that pointer - a node of the syntax tree - shares one object with every entry parsed later, so what was recorded for an entry is overwritten by the entries behind it (a secondary date that shows the last date of the file)")
				}
			}
		}
	}
	if n == 0 {
		c.ok("P-ALIAS", "internal/parser", "no address of a parser field leaves the parser", token.NoPos, "field addresses judged: "+itoa(seenAddr))
	}
}

// ruleStaleIndex (S-STALE): an offset found by searching one string is an offset into THAT string.  Reported: a
// string slice x[:i] / x[i:] (i the result of strings.Index* / LastIndex* on y, plus or minus a constant) where x is
// not y but what is left of y after a prefix was removed on some path (a re-slice with a lower bound, TrimSpace,
// TrimLeft, TrimPrefix, Trim): the offsets of x are shifted against those of y, so the cut is made at the wrong place
// and - when the match lay near the end of y - behind the end of x: slice bounds out of range, and nothing recovers
// (C06-m28: the comment's `;` looked up before the `(code)` prefix is stripped and used after it).
func ruleStaleIndex(c *Ctx) {
	if c.ranOnce("ruleStaleIndex") {
		return
	}
	n, judged := 0, 0
	prefixCut := map[string]bool{"TrimSpace": true, "TrimLeft": true, "TrimPrefix": true, "Trim": true, "TrimLeftFunc": true, "TrimFunc": true, "CutPrefix": true}
	suffixCut := map[string]bool{"TrimRight": true, "TrimSuffix": true, "TrimRightFunc": true}
	for _, f := range c.P.ModuleFuncs() {
		for _, b := range f.Blocks {
			for _, ins := range b.Instrs {
				sl, ok := ins.(*ssa.Slice)
				if !ok {
					continue
				}
				if bt, ok := sl.X.Type().Underlying().(*types.Basic); !ok || bt.Info()&types.IsString == 0 {
					continue
				}
				for _, bound := range []ssa.Value{sl.Low, sl.High} {
					if bound == nil {
						continue
					}
					call := exactIndexCall(bound)
					if call == nil || len(call.Call.Args) == 0 {
						continue
					}
					judged++
					y := stripConv(call.Call.Args[0])
					x := stripConv(sl.X)
					if x == y || sameLoad(x, y) {
						continue
					}
					// is x what is left of y after a prefix was removed on some path?
					seen := map[ssa.Value]bool{}
					var reach func(v ssa.Value, removed bool, depth int) bool
					reach = func(v ssa.Value, removed bool, depth int) bool {
						v = stripConv(v)
						if v == y || sameLoad(v, y) {
							return removed
						}
						if depth > 8 || (seen[v] && !removed) {
							return false
						}
						seen[v] = true
						switch w := v.(type) {
						case *ssa.Phi:
							for _, e := range w.Edges {
								if reach(e, removed, depth+1) {
									return true
								}
							}
						case *ssa.Slice:
							rm := removed
							if w.Low != nil {
								if k, ok := w.Low.(*ssa.Const); !ok || k.Value == nil || k.Value.ExactString() != "0" {
									rm = true
								}
							}
							return reach(w.X, rm, depth+1)
						case *ssa.Call:
							cal := w.Call.StaticCallee()
							if cal != nil && cal.Pkg != nil && cal.Pkg.Pkg.Path() == "strings" && len(w.Call.Args) > 0 {
								if prefixCut[cal.Name()] {
									return reach(w.Call.Args[0], true, depth+1)
								}
								if suffixCut[cal.Name()] {
									return reach(w.Call.Args[0], removed, depth+1)
								}
							}
						case *ssa.Extract:
							if cl, ok := w.Tuple.(*ssa.Call); ok && w.Index == 0 {
								cal := cl.Call.StaticCallee()
								if cal != nil && cal.Pkg != nil && cal.Pkg.Pkg.Path() == "strings" && cal.Name() == "CutPrefix" && len(cl.Call.Args) > 0 {
									return reach(cl.Call.Args[0], true, depth+1)
								}
							}
						}
						return false
					}
					if reach(x, false, 0) {
						n++
						c.finding("S-STALE", funcName(f), "an offset found in one string cuts what is left of it after a prefix was removed", sl.Pos(),
							"the bound of this slice is the result of strings."+call.Call.StaticCallee().Name()+" on a string of which the sliced string is a remainder (a prefix was cut or trimmed off in between, on some path): the offset is stale - the cut lands behind the intended place, and behind the end of the shortened string when the match lay near the end, which is a slice-bounds panic that nothing recovers from")
					}
				}
			}
		}
	}
	if n == 0 {
		c.ok("S-STALE", "module", "no search offset applied to a remainder of the searched string", token.NoPos, "slice bounds that are search results: "+itoa(judged))
	}
}

// exactIndexCall: v is the result of strings.Index*/LastIndex*, plus or minus a constant.
func exactIndexCall(v ssa.Value) *ssa.Call {
	v = stripConv(v)
	switch x := v.(type) {
	case *ssa.Call:
		if isIndexResult(x) && x.Call.StaticCallee().Pkg.Pkg.Path() == "strings" {
			return x
		}
	case *ssa.BinOp:
		if x.Op == token.ADD || x.Op == token.SUB {
			if _, ok := x.Y.(*ssa.Const); ok {
				return exactIndexCall(x.X)
			}
			if _, ok := x.X.(*ssa.Const); ok && x.Op == token.ADD {
				return exactIndexCall(x.Y)
			}
		}
	}
	return nil
}

// rulePrefixGuard (I-PREFIX): a hand-written prefix test `len(x) > len(q) && equal(x[:len(q)], q)`.  The slice is in
// bounds from len(x) >= len(q) on, and a name that IS the typed fragment starts with it: a strict comparison as the
// guard of a prefix-equality test drops exactly the names of the fragment's own length, so a fully typed account,
// payee or commodity is no longer offered (prefix completeness).  Reported: a string slice x[:len(q)] that is compared
// for equality with q (==, !=, strings.EqualFold, bytes.Equal) and whose block is control dependent on the strict
// comparison len(x) > len(q).  (A truncation `if len(s) > n { s = s[:n] }` is not a prefix test and not judged.)
// Written for C16-m27; C16-m23 was the same slip.
func rulePrefixGuard(c *Ctx) {
	if c.ranOnce("rulePrefixGuard") {
		return
	}
	sameVal := func(a, b ssa.Value) bool {
		a, b = stripConv(a), stripConv(b)
		if a == b || sameLoad(a, b) {
			return true
		}
		fa, ok1 := a.(*ssa.Field)
		fb, ok2 := b.(*ssa.Field)
		return ok1 && ok2 && fa.Field == fb.Field && (fa.X == fb.X || sameLoad(fa.X, fb.X))
	}
	lenArg := func(v ssa.Value) ssa.Value {
		if call, ok := stripConv(v).(*ssa.Call); ok {
			if bi, ok := call.Call.Value.(*ssa.Builtin); ok && bi.Name() == "len" && len(call.Call.Args) == 1 {
				return call.Call.Args[0]
			}
		}
		return nil
	}
	n, judged := 0, 0
	for _, f := range c.P.ModuleFuncs() {
		for _, b := range f.Blocks {
			for _, ins := range b.Instrs {
				sl, ok := ins.(*ssa.Slice)
				if !ok || sl.Low != nil || sl.High == nil || sl.Referrers() == nil {
					continue
				}
				if bt, ok := sl.X.Type().Underlying().(*types.Basic); !ok || bt.Info()&types.IsString == 0 {
					continue
				}
				q := lenArg(sl.High)
				if q == nil {
					continue
				}
				// compared for equality with q?
				isTest := false
				for _, r := range *sl.Referrers() {
					switch x := r.(type) {
					case *ssa.BinOp:
						if (x.Op == token.EQL || x.Op == token.NEQ) && (sameVal(x.X, q) || sameVal(x.Y, q)) {
							isTest = true
						}
					case *ssa.Call:
						if cal := x.Call.StaticCallee(); cal != nil && cal.Pkg != nil && (cal.Pkg.Pkg.Path() == "strings" && cal.Name() == "EqualFold" || cal.Pkg.Pkg.Path() == "bytes" && cal.Name() == "Equal") {
							for _, a := range x.Call.Args {
								if sameVal(a, q) {
									isTest = true
								}
							}
						}
					}
				}
				if !isTest {
					continue
				}
				judged++
				for _, cc := range controlCondsPol(b) {
					bo, ok := cc.Cond.(*ssa.BinOp)
					if !ok {
						continue
					}
					lx, ly := lenArg(bo.X), lenArg(bo.Y)
					if lx == nil || ly == nil {
						continue
					}
					// normalise to len(x) OP len(q)
					op := bo.Op
					switch {
					case sameVal(lx, sl.X) && sameVal(ly, q):
					case sameVal(ly, sl.X) && sameVal(lx, q):
						op = map[token.Token]token.Token{token.LSS: token.GTR, token.GTR: token.LSS, token.LEQ: token.GEQ, token.GEQ: token.LEQ}[op]
					default:
						continue
					}
					if !cc.Taken {
						op = map[token.Token]token.Token{token.LSS: token.GEQ, token.GTR: token.LEQ, token.LEQ: token.GTR, token.GEQ: token.LSS}[op]
					}
					if op == token.GTR {
						n++
						c.finding("I-PREFIX", funcName(f), "a prefix test is guarded by a strict length comparison", bo.Pos(),
							"x[:len(q)] is compared with q only where len(x) > len(q): a name that is exactly the typed fragment starts with it, but is dropped by the strict guard (the slice is in bounds from len(x) >= len(q) on) - a fully typed account, payee or commodity disappears from prefix completion while longer names with that prefix are still offered")
					}
				}
			}
		}
	}
	if n == 0 {
		c.ok("I-PREFIX", "module", "no prefix-equality test behind a strict length guard", token.NoPos, "hand-written prefix tests judged: "+itoa(judged))
	}
}

// ruleNilVsEmpty (N-EMPTY): "no elements" is len(s) == 0.  A slice that is built by filtering in place - `kept :=
// xs[:0]`, then append - is empty but NOT nil when nothing is kept (xs[:0] of a non-nil slice is non-nil), so a test
// `s == nil` on such a value (also through the result of the module helper that filters) does not see the empty
// case: the "nothing matched" branch is skipped (C10-m29: a glob whose only match is the including file itself no
// longer gets its "no files match" error; the include is dropped without a diagnostic).
func ruleNilVsEmpty(c *Ctx) {
	if c.ranOnce("ruleNilVsEmpty") {
		return
	}
	var fromZeroSlice func(v ssa.Value, depth int, seen map[ssa.Value]bool) bool
	fromZeroSlice = func(v ssa.Value, depth int, seen map[ssa.Value]bool) bool {
		if v == nil || seen[v] || depth > 6 {
			return false
		}
		seen[v] = true
		switch x := v.(type) {
		case *ssa.Slice:
			if k, ok := x.High.(*ssa.Const); ok && x.High != nil && k.Value != nil && k.Value.ExactString() == "0" {
				if _, isSlice := x.X.Type().Underlying().(*types.Slice); isSlice {
					return true
				}
			}
			return false
		case *ssa.Phi:
			for _, e := range x.Edges {
				if fromZeroSlice(e, depth+1, seen) {
					return true
				}
			}
		case *ssa.Call:
			if bi, ok := x.Call.Value.(*ssa.Builtin); ok && bi.Name() == "append" && len(x.Call.Args) > 0 {
				return fromZeroSlice(x.Call.Args[0], depth+1, seen)
			}
			if cal := x.Call.StaticCallee(); cal != nil && inModule(cal) && cal.Blocks != nil && cal.Signature.Results().Len() == 1 {
				for _, b := range cal.Blocks {
					if r, ok := lastInstr(b).(*ssa.Return); ok && len(r.Results) == 1 {
						if fromZeroSlice(r.Results[0], depth+1, seen) {
							return true
						}
					}
				}
			}
		case *ssa.UnOp:
			// a local that lives in a cell
			if al, ok := x.X.(*ssa.Alloc); ok && x.Op == token.MUL && al.Referrers() != nil {
				for _, r := range *al.Referrers() {
					if st, ok := r.(*ssa.Store); ok && st.Addr == ssa.Value(al) && fromZeroSlice(st.Val, depth+1, seen) {
						return true
					}
				}
			}
		}
		return false
	}
	n, judged := 0, 0
	for _, f := range c.P.ModuleFuncs() {
		for _, b := range f.Blocks {
			for _, ins := range b.Instrs {
				bo, ok := ins.(*ssa.BinOp)
				if !ok || (bo.Op != token.EQL && bo.Op != token.NEQ) {
					continue
				}
				for _, pr := range [][2]ssa.Value{{bo.X, bo.Y}, {bo.Y, bo.X}} {
					k, isK := pr[1].(*ssa.Const)
					if !isK || !k.IsNil() {
						continue
					}
					if _, isSlice := pr[0].Type().Underlying().(*types.Slice); !isSlice {
						continue
					}
					judged++
					if fromZeroSlice(pr[0], 0, map[ssa.Value]bool{}) {
						n++
						c.finding("N-EMPTY", funcName(f), "a slice filtered in place is compared with nil", bo.Pos(),
							"the slice compared with nil is built by an in-place filter (xs[:0] and append): when nothing is kept it is empty but not nil, so the test does not see the empty case - the branch for 'no element' (no file matches the pattern: an error on the include directive) is skipped and the directive is dropped without a diagnostic")
					}
				}
			}
		}
	}
	if n == 0 {
		c.ok("N-EMPTY", "module", "no nil test on a slice filtered in place", token.NoPos, "nil tests of slices judged: "+itoa(judged))
	}
}

// ruleFormatterAssertionIndependent (T14-INDEP): what the formatter writes behind the account - amount, cost, balance
// assertion - is three independent optional parts.  A read of Posting.BalanceAssertion (and of Posting.Cost) in
// package formatter is not control dependent on a nil test of the posting's Amount: `assets:bank  = $1000` is an
// amount-less posting with an assertion, it parses without an error (so the error-line protection does not cover it)
// and a formatter that returns early "when there is no amount" deletes the assertion text (C04-m29).  Same fact as
// T9-INDEP in the analyzer.
func ruleFormatterAssertionIndependent(c *Ctx) {
	if c.ranOnce("ruleFormatterAssertionIndependent") {
		return
	}
	fpk := c.P.SSAPkg("internal/formatter")
	n := 0
	for _, f := range c.P.ModuleFuncs() {
		top := f
		for top.Parent() != nil {
			top = top.Parent()
		}
		if top.Pkg != fpk {
			continue
		}
		for _, b := range f.Blocks {
			for _, ins := range b.Instrs {
				fa, ok := ins.(*ssa.FieldAddr)
				if !ok || !typeHasSuffix(fa.X.Type(), "ast.Posting") || fieldVarOfAddr(fa).Name() != "BalanceAssertion" {
					continue
				}
				n++
				bad := false
				for _, cc := range controlCondsPol(b) {
					bo, ok := cc.Cond.(*ssa.BinOp)
					if !ok || (bo.Op != token.EQL && bo.Op != token.NEQ) {
						continue
					}
					for _, pr := range [][2]ssa.Value{{bo.X, bo.Y}, {bo.Y, bo.X}} {
						k, isK := pr[1].(*ssa.Const)
						if !isK || !k.IsNil() {
							continue
						}
						if ld, ok := pr[0].(*ssa.UnOp); ok && ld.Op == token.MUL {
							if fa2, ok := ld.X.(*ssa.FieldAddr); ok && typeHasSuffix(fa2.X.Type(), "ast.Posting") && fieldVarOfAddr(fa2).Name() == "Amount" && sameAddr(fa2.X, fa.X, 0) {
								bad = true
							}
						}
					}
				}
				c.check(!bad, "T14-INDEP", funcName(f), "the balance assertion is written whether or not the posting has an amount", fa.Pos(),
					"the read of the assertion does not depend on a nil test of the posting's amount",
					"the formatter looks at a posting's balance assertion only where the posting's Amount is not nil: an amount-less posting with an assertion (`assets:bank  = $1000`) parses without an error, so its line is rewritten - without the assertion; the formatted journal has lost it")
			}
		}
	}
	c.census("T14-INDEP", "reads of a posting's balance assertion in the formatter", n, 1)
}

// ruleMissingKeyOverwrite (N-MISSING): a plain map read `m[k]` yields the zero value for a key that is not there.
// Stored into a field of a syntax-tree node that was given a value earlier in the same function, it wipes that
// value whenever the key is absent - "not written" is read as "written empty" (C03-m29: the commodity directive's
// Format taken from the inline sample, then `dir.Format = dir.Subdirs["format"]` for every directive that has any
// subdirective: `commodity 1.000,00 EUR` with only a `note` line loses its format and the journal's numbers are
// printed and read with the defaults).  The comma-ok form, or a store under a test of the value read, is the idiom
// the parser uses elsewhere.
func ruleMissingKeyOverwrite(c *Ctx) {
	if c.ranOnce("ruleMissingKeyOverwrite") {
		return
	}
	ppk := c.P.SSAPkg("internal/parser")
	n, judged := 0, 0
	for _, f := range c.P.ModuleFuncs() {
		top := f
		for top.Parent() != nil {
			top = top.Parent()
		}
		if top.Pkg != ppk {
			continue
		}
		var stores []*ssa.Store
		for _, b := range f.Blocks {
			for _, ins := range b.Instrs {
				if st, ok := ins.(*ssa.Store); ok {
					if fa, ok := st.Addr.(*ssa.FieldAddr); ok && strings.Contains(types.TypeString(fa.X.Type(), nil), "/internal/ast.") {
						stores = append(stores, st)
					}
				}
			}
		}
		for _, st := range stores {
			lk, ok := stripConv(st.Val).(*ssa.Lookup)
			if !ok || lk.CommaOk {
				continue
			}
			if _, isMap := lk.X.Type().Underlying().(*types.Map); !isMap {
				continue
			}
			judged++
			// guarded by a test of the value read (`if v := m[k]; v != "" { node.F = v }`)?
			guarded := false
			var uses func(v ssa.Value, depth int) bool
			uses = func(v ssa.Value, depth int) bool {
				if v == ssa.Value(lk) {
					return true
				}
				if depth > 4 {
					return false
				}
				if ins, ok := v.(ssa.Instruction); ok {
					for _, op := range ins.Operands(nil) {
						if *op != nil && uses(*op, depth+1) {
							return true
						}
					}
				}
				return false
			}
			for _, cc := range controlCondsPol(st.Block()) {
				if uses(cc.Cond, 0) {
					guarded = true
				}
			}
			if guarded {
				continue
			}
			for _, st2 := range stores {
				if st2 == st || !sameAddr(st2.Addr, st.Addr, 0) {
					continue
				}
				if k, ok := st2.Val.(*ssa.Const); ok && (k.Value == nil || k.Value.ExactString() == `""` || k.Value.ExactString() == "0") {
					continue
				}
				earlier := st2.Block() != st.Block() && st2.Block().Dominates(st.Block())
				if st2.Block() == st.Block() {
					for _, ins := range st.Block().Instrs {
						if ins == ssa.Instruction(st2) {
							earlier = true
							break
						}
						if ins == ssa.Instruction(st) {
							break
						}
					}
				}
				if !earlier {
					// an earlier store on some path (not dominating) still loses its value on that path
					earlier = reachesBlock(st2.Block(), st.Block()) && st2.Block() != st.Block()
				}
				if earlier {
					n++
					c.finding("N-MISSING", funcName(f), "a plain map read overwrites syntax-tree field "+fieldVarOfAddr(st.Addr.(*ssa.FieldAddr)).Name(), st.Pos(),
						"field "+fieldVarOfAddr(st.Addr.(*ssa.FieldAddr)).Name()+" of a syntax-tree node, set earlier in this function, is overwritten with a plain map read m[k]: when the key is absent the read yields the zero value and the earlier value is lost (a commodity directive with an inline sample and some other subdirective loses its format)")
					break
				}
			}
		}
	}
	if n == 0 {
		c.ok("N-MISSING", "internal/parser", "no plain map read overwrites a syntax-tree field that already has a value", token.NoPos, "stores of plain map reads into tree fields judged: "+itoa(judged))
	}
}

// ruleNilInnerMap (N-NILMAP): `outer[k][x] = v` writes into the map stored under k - a nil map when nothing was
// stored there, and a write into a nil map panics (no recover anywhere: the background analysis takes the server
// down).  Every such update is (a) control dependent on a nil test / comma-ok of outer[k], or (b) preceded by the
// idiom `if outer[k] == nil { outer[k] = make(...) }` whose test block dominates it.  A make that happens under
// some OTHER condition ("the name is new in a sibling map") does not count: the two maps need not have the same keys
// (C06-m29: a tag first seen without a value is entered into the one map only; its first value then panics).
func ruleNilInnerMap(c *Ctx) {
	if c.ranOnce("ruleNilInnerMap") {
		return
	}
	sameV := func(a, b ssa.Value) bool {
		a, b = stripConv(a), stripConv(b)
		return a == b || sameLoad(a, b)
	}
	lookupOf := func(v ssa.Value) *ssa.Lookup {
		v = stripConv(v)
		if ex, ok := v.(*ssa.Extract); ok {
			v = ex.Tuple
		}
		lk, _ := v.(*ssa.Lookup)
		return lk
	}
	// nilTestOf: cond says "outer[key] is nil" (isNil) or "is not nil / is present"
	testOf := func(cc ctrlCond, outer, key ssa.Value) (isNilBranch, ok bool) {
		switch x := cc.Cond.(type) {
		case *ssa.BinOp:
			if x.Op != token.EQL && x.Op != token.NEQ {
				return false, false
			}
			for _, pr := range [][2]ssa.Value{{x.X, x.Y}, {x.Y, x.X}} {
				k, isK := pr[1].(*ssa.Const)
				if !isK || !k.IsNil() {
					continue
				}
				if lk := lookupOf(pr[0]); lk != nil && sameV(lk.X, outer) && sameV(lk.Index, key) {
					return (x.Op == token.EQL) == cc.Taken, true
				}
			}
		case *ssa.Extract:
			if lk, isLk := x.Tuple.(*ssa.Lookup); isLk && x.Index == 1 && sameV(lk.X, outer) && sameV(lk.Index, key) {
				return !cc.Taken, true
			}
		case *ssa.UnOp:
			if x.Op == token.NOT {
				if ex, isEx := x.X.(*ssa.Extract); isEx && ex.Index == 1 {
					if lk, isLk := ex.Tuple.(*ssa.Lookup); isLk && sameV(lk.X, outer) && sameV(lk.Index, key) {
						return cc.Taken, true
					}
				}
			}
		}
		return false, false
	}
	n := 0
	for _, f := range c.P.ModuleFuncs() {
		for _, b := range f.Blocks {
			for _, ins := range b.Instrs {
				mu, ok := ins.(*ssa.MapUpdate)
				if !ok {
					continue
				}
				lk, ok := stripConv(mu.Map).(*ssa.Lookup)
				if !ok || lk.CommaOk {
					continue
				}
				if _, isMap := lk.X.Type().Underlying().(*types.Map); !isMap {
					continue
				}
				n++
				outer, key := lk.X, lk.Index
				safe := false
				for _, cc := range controlCondsPol(b) {
					if isNil, ok := testOf(cc, outer, key); ok && !isNil {
						safe = true
					}
				}
				if !safe {
					// the make-if-nil idiom in front of the update
					for _, b2 := range f.Blocks {
						for _, x := range b2.Instrs {
							mk, ok := x.(*ssa.MapUpdate)
							if !ok || !sameV(mk.Map, outer) || !sameV(mk.Key, key) {
								continue
							}
							if _, isMake := stripConv(mk.Value).(*ssa.MakeMap); !isMake {
								continue
							}
							for _, cc := range controlCondsPol(b2) {
								if isNil, ok := testOf(cc, outer, key); ok && isNil {
									// the block that holds the test dominates the update
									if tb := condBlockOf(cc.Cond); tb != nil && (tb == b || tb.Dominates(b)) {
										safe = true
									}
								}
							}
						}
					}
				}
				c.check(safe, "N-NILMAP", funcName(f), "a write into a map read from another map is behind a nil test of that entry", mu.Pos(),
					"the inner map is tested (or made when nil) under a test of the very entry",
					"outer[k][x] = v with nothing that guarantees outer[k] is not nil: the inner map is neither tested nor made under a test of that entry (a make under another condition - 'the name is new in a sibling map' - does not cover the names the sibling already has): assignment to entry in nil map, a panic that nothing recovers from")
			}
		}
	}
	c.census("N-NILMAP", "writes into a map read from another map", n, 1)
}

// condBlockOf: the block in which a condition value is computed.
func condBlockOf(v ssa.Value) *ssa.BasicBlock {
	if ins, ok := v.(ssa.Instruction); ok {
		return ins.Block()
	}
	return nil
}

// ruleExtenderKeepsSets (C18-SOURCES, nil clause): a function of package server that is handed the external
// declarations and returns external declarations (the step that adds what the document's include tree declares)
// returns, in each of the two sets, something that stands for the set it was given: the value stored into
// Accounts / Commodities of the returned struct is never the nil map on any path (through merges and through the
// returns of the helpers it comes from).  A lazily made private copy that is still nil for the kind the tree added
// nothing to, returned next to the extended other kind, silently drops every workspace declaration of that kind
// (C18-m29).
func ruleExtenderKeepsSets(c *Ctx) {
	if c.ranOnce("ruleExtenderKeepsSets") {
		return
	}
	spk := c.P.SSAPkg("internal/server")
	isExt := func(t types.Type) bool { return typeHasSuffix(t, "analyzer.ExternalDeclarations") }
	n := 0
	for _, f := range c.P.ModuleFuncs() {
		if f.Pkg != spk || f.Signature.Results().Len() != 1 || !isExt(f.Signature.Results().At(0).Type()) {
			continue
		}
		takes := false
		for _, p := range f.Params {
			if isExt(p.Type()) {
				takes = true
			}
		}
		if !takes {
			continue
		}
		for _, b := range f.Blocks {
			for _, ins := range b.Instrs {
				st, ok := ins.(*ssa.Store)
				if !ok {
					continue
				}
				fa, ok := st.Addr.(*ssa.FieldAddr)
				if !ok {
					continue
				}
				pt, ok := fa.X.Type().Underlying().(*types.Pointer)
				if !ok || !isExt(pt.Elem()) {
					continue
				}
				if _, isMap := st.Val.Type().Underlying().(*types.Map); !isMap {
					continue
				}
				n++
				nilLeaf := false
				seen := map[ssa.Value]bool{}
				var walk func(v ssa.Value, depth int)
				walk = func(v ssa.Value, depth int) {
					v = stripConv(v)
					if v == nil || seen[v] || depth > 8 {
						return
					}
					seen[v] = true
					switch x := v.(type) {
					case *ssa.Const:
						if x.IsNil() {
							nilLeaf = true
						}
					case *ssa.Phi:
						for _, e := range x.Edges {
							walk(e, depth+1)
						}
					case *ssa.Call:
						if cal := x.Call.StaticCallee(); cal != nil && inModule(cal) && cal.Blocks != nil && cal.Signature.Results().Len() == 1 {
							for _, b2 := range cal.Blocks {
								if r, ok := lastInstr(b2).(*ssa.Return); ok && len(r.Results) == 1 {
									rv := stripConv(r.Results[0])
									// a parameter handed back: what the call site passes
									if prm, ok := rv.(*ssa.Parameter); ok {
										for i, q := range cal.Params {
											if q == prm && i < len(x.Call.Args) {
												walk(x.Call.Args[i], depth+1)
											}
										}
										continue
									}
									walk(rv, depth+1)
								}
							}
						}
					}
				}
				walk(st.Val, 0)
				c.check(!nilLeaf, "C18-SOURCES", funcName(f), "the returned "+fieldVarOfAddr(fa).Name()+" set stands for the set that was handed in", st.Pos(),
					"no path stores the nil map", "on some path the "+fieldVarOfAddr(fa).Name()+" set of the returned declarations is the nil map (a private copy that was never made because the include tree added nothing of this kind): the declarations the workspace knows are dropped for this analysis - undeclared-name warnings of that kind vanish, or fire for names the workspace declares")
			}
		}
	}
	c.note("C18-SOURCES (nil clause): %d set fields of returned external declarations judged", n)
}

// ruleMemoKeyPart (M-KEY, part clause): a memo whose key is a PART of a string (a slice `s[:i]` / `s[i:]` of it) holds
// values that may depend on that part only.  If the stored value - by data or by the branches that decide it - also
// depends on the whole string otherwise than through the key (the string is looked up, compared, handed to a call or
// carried round a loop), two strings with the same part share one slot and the second gets the first one's answer
// (C18-m30: "is the account covered by a declaration" memoised per parent account, although the walk starts at the
// account itself - an exactly declared account and its undeclared sibling get one verdict).
func ruleMemoKeyPart(c *Ctx) {
	if c.ranOnce("ruleMemoKeyPart") {
		return
	}
	n := 0
	for _, f := range c.P.ModuleFuncs() {
		for _, b := range f.Blocks {
			for _, ins := range b.Instrs {
				mu, ok := ins.(*ssa.MapUpdate)
				if !ok {
					continue
				}
				key, ok := stripConv(mu.Key).(*ssa.Slice)
				if !ok {
					continue
				}
				if bt, ok := key.X.Type().Underlying().(*types.Basic); !ok || bt.Info()&types.IsString == 0 {
					continue
				}
				hasLookup := false
				for _, b2 := range f.Blocks {
					for _, in2 := range b2.Instrs {
						if lk, ok := in2.(*ssa.Lookup); ok && lk.CommaOk && sameMapValue(lk.X, mu.Map) && stripConv(lk.Index) == ssa.Value(key) {
							hasLookup = true
						}
					}
				}
				if !hasLookup {
					continue
				}
				n++
				whole := stripConv(key.X)
				out := map[ssa.Value]bool{}
				sliceWithControl(mu.Value, 0, out)
				bad := ""
				for w := range out {
					if w == ssa.Value(key) {
						continue
					}
					insW, ok := w.(ssa.Instruction)
					if !ok {
						continue
					}
					uses := false
					for _, op := range insW.Operands(nil) {
						if *op != nil && stripConv(*op) == whole {
							uses = true
						}
					}
					if !uses {
						continue
					}
					switch x := w.(type) {
					case *ssa.Slice:
						continue // another cut of the string
					case *ssa.Call:
						if isIndexResult(x) {
							continue
						}
						if bi, ok := x.Call.Value.(*ssa.Builtin); ok && bi.Name() == "len" {
							continue
						}
						if cal := x.Call.StaticCallee(); cal != nil && cal.Pkg != nil && cal.Pkg.Pkg.Path() == "strings" && (cal.Name() == "Cut" || cal.Name() == "Contains" || cal.Name() == "Count") {
							continue
						}
						bad = "a call is handed the whole string"
					case *ssa.Phi:
						bad = "the whole string is carried round a loop or merged"
					case *ssa.Lookup:
						bad = "the whole string is looked up"
					case *ssa.BinOp:
						bad = "the whole string is compared or concatenated"
					}
				}
				c.check(bad == "", "M-KEY", funcName(f), "a memo keyed by a part of a string holds what depends on that part only", mu.Pos(),
					"the stored value depends on the string through the key only",
					"results are memoised under a part of a string (a cut of it) although the stored value also depends on the whole string ("+bad+"): two strings with the same part share a slot, the second is answered with the first one's result - the verdict for an account depends on which of its siblings was looked at first")
			}
		}
	}
	c.note("M-KEY (part clause): %d memos keyed by a part of a string", n)
}

// ruleCursorImage (T12-PAIR): a byte cursor and its image.  When a loop carries a byte offset `a` into a text and a
// second counter `b` that is advanced by a measure of the text between the old and the new cursor
// (`b' = b + UTF16Len(text[a:x]) ...` - the Low bound of the measured slice is the cursor), `b` is the image of `a`
// under that measure: column of offset.  The pair is consistent only if `b` moves whenever `a` does: a way back to the
// loop header on which the cursor is moved and its image is kept leaves the image behind, and every later position
// computed from it is too far left (C17-m30: a tag without a value moves searchStart past `name:` and keeps
// searchCol; the following tags' tokens land inside the first tag).
func ruleCursorImage(c *Ctx) {
	if c.ranOnce("ruleCursorImage") {
		return
	}
	n := 0
	for _, f := range c.P.ModuleFuncs() {
		for _, hb := range f.Blocks {
			var back []int
			for i, pred := range hb.Preds {
				if reachesBlock(hb, pred) {
					back = append(back, i)
				}
			}
			if len(back) == 0 {
				continue
			}
			var phis []*ssa.Phi
			for _, ins := range hb.Instrs {
				p, ok := ins.(*ssa.Phi)
				if !ok {
					break
				}
				if isIntType(p.Type()) {
					phis = append(phis, p)
				}
			}
			for _, b := range phis {
				for _, a := range phis {
					if a == b {
						continue
					}
					// b is advanced by a measure of text[a:...] on some way back
					image := false
					for _, i := range back {
						if i >= len(b.Edges) {
							continue
						}
						sl := backSliceStopAtPhis(b.Edges[i], hb)
						if !sl[b] {
							continue
						}
						for w := range sl {
							s, ok := w.(*ssa.Slice)
							if !ok || s.Low == nil {
								continue
							}
							if bt, ok := s.X.Type().Underlying().(*types.Basic); !ok || bt.Info()&types.IsString == 0 {
								continue
							}
							if stripConv(s.Low) == ssa.Value(a) {
								// the slice is measured (handed to a call whose integer result is in the slice)
								if s.Referrers() != nil {
									for _, r := range *s.Referrers() {
										if call, ok := r.(*ssa.Call); ok && sl[call] && isIntType(call.Type()) {
											image = true
										}
									}
								}
							}
						}
					}
					if !image {
						continue
					}
					n++
					for _, j := range back {
						if j >= len(a.Edges) || j >= len(b.Edges) {
							continue
						}
						aMoves := !sameThroughPhiInt(a.Edges[j], a)
						bMoves := !sameThroughPhiInt(b.Edges[j], b)
						c.check(!(aMoves && !bMoves), "T12-PAIR", funcName(f), "a cursor and its measured image move together", lastInstr(hb.Preds[j]).Pos(),
							"on this way back to the loop header the image is advanced with the cursor (or neither moves)",
							"a loop carries a byte cursor into a text and a counter that is advanced by a measure (UTF-16 length) of the text behind the cursor; on this way back to the loop header the cursor is moved but the counter keeps its value: it no longer is the column of the cursor, so every position computed from it afterwards is too far left - tokens inside or before earlier ones, ranges that do not cover their text")
					}
				}
			}
		}
	}
	c.note("T12-PAIR: %d cursor/image pairs", n)
}

// sameThroughPhiInt: v is the header phi itself on every path (possibly through inner merges of it with itself).
func sameThroughPhiInt(v ssa.Value, phi *ssa.Phi) bool {
	seen := map[ssa.Value]bool{}
	var same func(v ssa.Value) bool
	same = func(v ssa.Value) bool {
		v = stripConv(v)
		if v == ssa.Value(phi) || seen[v] {
			return true
		}
		seen[v] = true
		if p2, ok := v.(*ssa.Phi); ok {
			for _, e := range p2.Edges {
				if !same(e) {
					return false
				}
			}
			return len(p2.Edges) > 0
		}
		return false
	}
	return same(v)
}

// backSliceStopAtPhis: the values v is computed from, not looking through the phis of the loop header hb (they are in
// the result, their edges are not followed); memory is not followed.
func backSliceStopAtPhis(v ssa.Value, hb *ssa.BasicBlock) map[ssa.Value]bool {
	out := map[ssa.Value]bool{}
	var visit func(v ssa.Value, depth int)
	visit = func(v ssa.Value, depth int) {
		if v == nil || out[v] || depth > 24 {
			return
		}
		out[v] = true
		if p, ok := v.(*ssa.Phi); ok && p.Block() == hb {
			return
		}
		if ins, ok := v.(ssa.Instruction); ok {
			for _, op := range ins.Operands(nil) {
				if *op != nil {
					visit(*op, depth+1)
				}
			}
		}
	}
	visit(v, 0)
	return out
}

// ruleBufferReuse (S-REUSE): a slice that was handed out is not a scratch buffer any more.  `x = x[:0]` keeps the
// backing array; if the same slice value was stored into a map, a field, another slice or an interface just before,
// what is appended next overwrites what was handed out (C09-m30: the edits of one file stored in the WorkspaceEdit,
// the shared slice reset with edits[:0] and refilled for the next file - every file but the last gets another file's
// ranges).
func ruleBufferReuse(c *Ctx) {
	if c.ranOnce("ruleBufferReuse") {
		return
	}
	n, judged := 0, 0
	for _, f := range c.P.ModuleFuncs() {
		for _, b := range f.Blocks {
			for _, ins := range b.Instrs {
				s, ok := ins.(*ssa.Slice)
				if !ok || s.Low != nil || s.High == nil {
					continue
				}
				k, ok := s.High.(*ssa.Const)
				if !ok || k.Value == nil || k.Value.ExactString() != "0" {
					continue
				}
				if _, isSlice := s.X.Type().Underlying().(*types.Slice); !isSlice {
					continue
				}
				judged++
				v := s.X
				if v.Referrers() == nil {
					continue
				}
				kept := ""
				for _, r := range *v.Referrers() {
					switch x := r.(type) {
					case *ssa.MapUpdate:
						if x.Value == v {
							kept = "stored into a map"
						}
					case *ssa.Store:
						if x.Val == v {
							if _, local := x.Addr.(*ssa.Alloc); !local {
								kept = "stored into a field or element"
							}
						}
					case *ssa.MakeInterface:
						kept = "boxed into an interface value"
					case *ssa.Call:
						if bi, ok := x.Call.Value.(*ssa.Builtin); ok && bi.Name() == "append" && len(x.Call.Args) == 2 {
							// append(list, v) with v as the ELEMENT slice of a variadic `append(list, v)` over [][]T
							if x.Call.Args[1] == v {
								if st, ok := x.Call.Args[0].Type().Underlying().(*types.Slice); ok && types.Identical(st.Elem(), v.Type()) {
									kept = "appended to a list of slices"
								}
							}
						}
					}
				}
				if kept != "" {
					n++
					c.finding("S-REUSE", funcName(f), "a slice is reset with [:0] after it was handed out", s.Pos(),
						"the slice that is reset to length 0 (keeping its backing array) was "+kept+" before: what is appended next overwrites the elements that were handed out - every holder but the last sees another one's data (the text edits of one file carry the ranges of the next)")
				}
			}
		}
	}
	if n == 0 {
		c.ok("S-REUSE", "module", "no slice reset with [:0] after being handed out", token.NoPos, "resets judged: "+itoa(judged))
	}
}

// ruleMemoScalarKey (M-KEY, scalar clause): a memo (a map or sync.Map that one function reads under a key and fills
// under the same key when the key is missing) stores values computed from the function's inputs; a scalar parameter
// (number, flag, string) that the stored value depends on and the key does not mention is an input the memo forgets:
// the first caller's value of it is served to every later caller (C19-m30: the inline-completion text memoised per
// payee although it is built for settings.Formatting.IndentSize - a changed indent does not take effect).
func ruleMemoScalarKey(c *Ctx) {
	if c.ranOnce("ruleMemoScalarKey") {
		return
	}
	type acc struct {
		cont, key, val ssa.Value
		pos            token.Pos
	}
	isSyncMap := func(call *ssa.Call, name string) bool {
		cal := call.Call.StaticCallee()
		return cal != nil && cal.Name() == name && cal.Signature.Recv() != nil && typeHasSuffix(cal.Signature.Recv().Type(), "sync.Map")
	}
	sameC := func(a, b ssa.Value) bool {
		a, b = stripConv(a), stripConv(b)
		return a == b || sameLoad(a, b) || sameAddr(a, b, 0)
	}
	unbox := func(v ssa.Value) ssa.Value {
		if mi, ok := v.(*ssa.MakeInterface); ok {
			return mi.X
		}
		return v
	}
	n := 0
	for _, f := range c.P.ModuleFuncs() {
		var loads, stores []acc
		for _, b := range f.Blocks {
			for _, ins := range b.Instrs {
				switch x := ins.(type) {
				case *ssa.Lookup:
					if x.CommaOk {
						loads = append(loads, acc{cont: x.X, key: x.Index, pos: x.Pos()})
					}
				case *ssa.MapUpdate:
					stores = append(stores, acc{cont: x.Map, key: x.Key, val: x.Value, pos: x.Pos()})
				case *ssa.Call:
					if isSyncMap(x, "Load") && len(x.Call.Args) == 2 {
						loads = append(loads, acc{cont: x.Call.Args[0], key: unbox(x.Call.Args[1]), pos: x.Pos()})
					}
					if isSyncMap(x, "Store") && len(x.Call.Args) == 3 {
						stores = append(stores, acc{cont: x.Call.Args[0], key: unbox(x.Call.Args[1]), val: unbox(x.Call.Args[2]), pos: x.Pos()})
					}
				}
			}
		}
		for _, st := range stores {
			memo := false
			for _, ld := range loads {
				if sameC(ld.cont, st.cont) && (stripConv(ld.key) == stripConv(st.key) || sameLoad(ld.key, st.key)) {
					memo = true
				}
			}
			if !memo {
				continue
			}
			n++
			keySl := backSlice(st.key)
			valSl := backSlice(st.val)
			bad := ""
			for i, p := range f.Params {
				if i == 0 && f.Signature.Recv() != nil {
					continue
				}
				bt, ok := p.Type().Underlying().(*types.Basic)
				if !ok || bt.Info()&(types.IsInteger|types.IsBoolean|types.IsString|types.IsFloat) == 0 {
					continue
				}
				if valSl[p] && !keySl[p] {
					// an input that is recorded in the entry and compared on every hit is validated, not forgotten
					compared := false
					if p.Referrers() != nil {
						for _, r := range *p.Referrers() {
							if bo, ok := r.(*ssa.BinOp); ok && (bo.Op == token.EQL || bo.Op == token.NEQ) {
								compared = true
							}
						}
					}
					if !compared {
						bad = p.Name()
					}
				}
			}
			c.check(bad == "", "M-KEY", funcName(f), "a memo is keyed by every scalar input its values are computed from", st.pos,
				"no scalar parameter flows into the stored value without being part of the key",
				"the value stored in this memo is computed from parameter "+bad+", which is not part of the key: whatever the first caller passed is served to every later caller - a setting that is handed in this way (the configured indent) stops taking effect once a value is memoised")
		}
	}
	c.note("M-KEY (scalar clause): %d memos judged", n)
}

// ruleBuilderMeasure (C05-COL): the column at which padding starts is the length of the line AS BUILT SO FAR.  In
// the formatter a measure of a strings.Builder's content (`sb.String()` handed to a counting function, `sb.Len()`)
// that flows into the count of a strings.Repeat is taken after the last write into that builder: no Write* on the
// same builder lies on a path between the measure and the Repeat.  A snapshot taken one statement early (before the
// closing bracket of a virtual account is written) pads by a column too many for exactly those postings
// (C05-m30) - their amounts leave the common column.
func ruleBuilderMeasure(c *Ctx) {
	if c.ranOnce("ruleBuilderMeasure") {
		return
	}
	fpk := c.P.SSAPkg("internal/formatter")
	isBuilderMethod := func(call ssa.CallInstruction, pred func(string) bool) (ssa.Value, bool) {
		cal := call.Common().StaticCallee()
		if cal == nil || cal.Signature.Recv() == nil || !typeHasSuffix(cal.Signature.Recv().Type(), "strings.Builder") || !pred(cal.Name()) || len(call.Common().Args) == 0 {
			return nil, false
		}
		return call.Common().Args[0], true
	}
	n := 0
	for _, f := range c.P.ModuleFuncs() {
		top := f
		for top.Parent() != nil {
			top = top.Parent()
		}
		if top.Pkg != fpk {
			continue
		}
		type site struct {
			ins ssa.Instruction
			sb  ssa.Value
		}
		var measures, writes []site
		var repeats []*ssa.Call
		for _, b := range f.Blocks {
			for _, ins := range b.Instrs {
				call, ok := ins.(ssa.CallInstruction)
				if !ok {
					continue
				}
				if sb, ok := isBuilderMethod(call, func(n string) bool { return n == "String" || n == "Len" }); ok {
					measures = append(measures, site{ins, sb})
				}
				if sb, ok := isBuilderMethod(call, func(n string) bool { return strings.HasPrefix(n, "Write") }); ok {
					writes = append(writes, site{ins, sb})
				}
				if cv, ok := ins.(*ssa.Call); ok {
					if cal := cv.Call.StaticCallee(); cal != nil && funcName(cal) == "strings.Repeat" {
						repeats = append(repeats, cv)
					}
				}
			}
		}
		before := func(x, y ssa.Instruction) bool { // x can execute before y
			if x.Block() == y.Block() {
				for _, ins := range x.Block().Instrs {
					if ins == x {
						return true
					}
					if ins == y {
						return false
					}
				}
			}
			return reachesBlock(x.Block(), y.Block())
		}
		for _, rp := range repeats {
			sl := backSlice(rp.Call.Args[1])
			for _, m := range measures {
				mv, ok := m.ins.(ssa.Value)
				if !ok || !sl[mv] {
					continue
				}
				n++
				stale := false
				for _, w := range writes {
					if w.sb != m.sb && !sameAddr(w.sb, m.sb, 0) {
						continue
					}
					if w.ins != m.ins && before(m.ins, w.ins) && before(w.ins, rp) && !before(w.ins, m.ins) {
						// a later measure of the same builder in the slice that lies behind the write re-synchronises
						resync := false
						for _, m2 := range measures {
							m2v, ok := m2.ins.(ssa.Value)
							if ok && m2.ins != m.ins && sl[m2v] && (m2.sb == m.sb || sameAddr(m2.sb, m.sb, 0)) && before(w.ins, m2.ins) && !before(m2.ins, w.ins) {
								resync = true
							}
						}
						if !resync {
							stale = true
						}
					}
				}
				c.check(!stale, "C05-COL", funcName(f), "padding is computed from the line as built so far", rp.Pos(),
					"no write into the builder between the measure and the padding",
					"the count of blanks is computed from a measure of the line under construction that was taken before a later write into the same builder: the line is longer than measured when the padding is added, so the amount starts to the right of the column - for exactly the postings on which that write adds something (the closing bracket of a virtual account)")
			}
		}
	}
	c.note("C05-COL: %d measures of a builder that feed a padding count", n)
}

// ruleSentinelCollision (N-SENTINEL): the empty string as "no value given".  A function that (a) tests a string
// parameter against "" to switch a filter off and (b) otherwise compares the same parameter with data, and that is
// called with the literal "" at one site ("no filter") and with a run-time string at another, gives the run-time
// caller the no-filter behaviour whenever its string happens to be empty - and an empty tag value (`; reviewed:`) is a
// legitimate value.  The run-time site is fine if it is control dependent on a test of its argument against "".
// (C20-m29: tag-name and tag-value counts folded into one function with tagValue == "" as the switch: hovering an
// empty value reports the uses of the whole tag.)
func ruleSentinelCollision(c *Ctx) {
	if c.ranOnce("ruleSentinelCollision") {
		return
	}
	isEmptyConst := func(v ssa.Value) bool {
		k, ok := v.(*ssa.Const)
		return ok && k.Value != nil && k.Value.ExactString() == `""`
	}
	n := 0
	for _, f := range c.P.ModuleFuncs() {
		if f.Parent() != nil {
			continue
		}
		for idx, p := range f.Params {
			bt, ok := p.Type().Underlying().(*types.Basic)
			if !ok || bt.Info()&types.IsString == 0 {
				continue
			}
			// the parameter and its captured copies in the function's closures
			isP := func(v ssa.Value) bool {
				v = stripConv(v)
				if v == ssa.Value(p) {
					return true
				}
				if ld, ok := v.(*ssa.UnOp); ok && ld.Op == token.MUL {
					if fv, ok := ld.X.(*ssa.FreeVar); ok && fv.Name() == p.Name() {
						return true
					}
				}
				if fv, ok := v.(*ssa.FreeVar); ok && fv.Name() == p.Name() {
					return true
				}
				return false
			}
			sentinel, comparand := false, false
			fns := append([]*ssa.Function{f}, f.AnonFuncs...)
			for _, g := range fns {
				for _, b := range g.Blocks {
					for _, ins := range b.Instrs {
						bo, ok := ins.(*ssa.BinOp)
						if !ok || (bo.Op != token.EQL && bo.Op != token.NEQ) {
							continue
						}
						for _, pr := range [][2]ssa.Value{{bo.X, bo.Y}, {bo.Y, bo.X}} {
							if !isP(pr[0]) {
								continue
							}
							if isEmptyConst(pr[1]) {
								sentinel = true
							} else if _, isK := pr[1].(*ssa.Const); !isK {
								comparand = true
							}
						}
					}
				}
			}
			if !sentinel || !comparand {
				continue
			}
			nConst := 0
			var dyn []ssa.CallInstruction
			for _, site := range (cgView{c}).callersOf(f) {
				if idx >= len(site.Common().Args) {
					continue
				}
				a := site.Common().Args[idx]
				if isEmptyConst(a) {
					nConst++
					continue
				}
				if _, isK := a.(*ssa.Const); isK {
					continue
				}
				guarded := false
				for _, cc := range controlCondsPol(site.Block()) {
					if bo, ok := cc.Cond.(*ssa.BinOp); ok && (bo.Op == token.EQL || bo.Op == token.NEQ) {
						for _, pr := range [][2]ssa.Value{{bo.X, bo.Y}, {bo.Y, bo.X}} {
							if (stripConv(pr[0]) == stripConv(a) || sameLoad(pr[0], a)) && isEmptyConst(pr[1]) && (bo.Op == token.NEQ) == cc.Taken {
								guarded = true
							}
						}
					}
				}
				if !guarded {
					dyn = append(dyn, site)
				}
			}
			if nConst == 0 {
				continue
			}
			n++
			pos := f.Pos()
			if len(dyn) > 0 {
				pos = dyn[0].Pos()
			}
			c.check(len(dyn) == 0, "N-SENTINEL", funcName(f), "the empty string is not both a switch and a value of parameter "+p.Name(), pos,
				"every caller that passes a run-time string has tested it against the empty string",
				"parameter "+p.Name()+" is tested against \"\" to switch a filter off and is otherwise compared with data; one caller passes the literal \"\" for 'no filter', another passes a run-time string without testing it: when that string is empty - a tag written without a value has the legitimate value \"\" - the caller gets the unfiltered answer (the uses of the whole tag instead of the uses of the empty value)")
		}
	}
	c.note("N-SENTINEL: %d parameters that are both a switch and a value", n)
}

// ruleFolderNotMembership (C12-FOLDER): which files belong to the workspace is decided by the include tree of the root
// journal - not by where a file lies.  The workspace folder (the string field the constructor fills from its
// parameter) is read while the root journal is looked for, during initialisation; no function on the update path
// (reachable from Workspace.UpdateFile) reads it.  A membership test "inside the folder" drops the unsaved edits of an
// included file that lies outside it (`include ../shared/common.journal`): references and rename edits are computed
// from the version on disk (C09-m31).
func ruleFolderNotMembership(c *Ctx) {
	if c.ranOnce("ruleFolderNotMembership") {
		return
	}
	ci := buildConc(c)
	wpk := c.P.SSAPkg("internal/workspace")
	// the folder field: a string field of Workspace stored from a parameter of a function that returns *Workspace
	folder := -1
	for _, f := range c.P.ModuleFuncs() {
		if f.Pkg != wpk || f.Signature.Results().Len() != 1 || !typeHasSuffix(f.Signature.Results().At(0).Type(), "workspace.Workspace") {
			continue
		}
		for _, b := range f.Blocks {
			for _, ins := range b.Instrs {
				st, ok := ins.(*ssa.Store)
				if !ok {
					continue
				}
				fa, ok := st.Addr.(*ssa.FieldAddr)
				if !ok || !typeHasSuffix(fa.X.Type(), "workspace.Workspace") {
					continue
				}
				if p, ok := stripConv(st.Val).(*ssa.Parameter); ok && types.TypeString(p.Type(), nil) == "string" {
					folder = fa.Field
				}
			}
		}
	}
	var upd *ssa.Function
	for _, f := range c.P.ModuleFuncs() {
		if f.Pkg == wpk && f.Name() == "UpdateFile" && f.Signature.Recv() != nil && typeHasSuffix(f.Signature.Recv().Type(), "workspace.Workspace") {
			upd = f
		}
	}
	if folder < 0 || upd == nil {
		c.undecided("C12-FOLDER", "workspace", "folder field and update entry point", token.NoPos, "the workspace's folder field or Workspace.UpdateFile was not found")
		return
	}
	n := 0
	for f := range Reach(ci.g, []*ssa.Function{upd}, false) {
		if f.Blocks == nil || !inModule(f) {
			continue
		}
		for _, b := range f.Blocks {
			for _, ins := range b.Instrs {
				fa, ok := ins.(*ssa.FieldAddr)
				if !ok || fa.Field != folder || !typeHasSuffix(fa.X.Type(), "workspace.Workspace") {
					continue
				}
				n++
				c.finding("C12-FOLDER", funcName(f), "the workspace folder is read on the update path", fa.Pos(),
					"a function reachable from Workspace.UpdateFile reads the workspace folder: whether an update is applied must depend on the include tree only - a file that the root journal includes from outside the folder is a member like any other, and dropping its updates leaves the tree at the version on disk")
			}
		}
	}
	if n == 0 {
		c.ok("C12-FOLDER", "workspace", "the workspace folder is not read on the update path", token.NoPos, "membership is decided by the include tree")
	}
}
