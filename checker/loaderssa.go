package main

// Engine G on SSA (round 3): the include loader's typestate rules, decided on the SSA form of package include
// with events lifted through helper functions, so that the rules do not depend on which function holds a
// test, a mark or an error literal.
//
// Vocabulary
//   S            the functions of package include on a call-graph cycle (the include recursion)
//   A            the ancestor set: the map[string]bool whose lookup controls (positively) a use of the
//                cycle-error kind constant
//   L            the loaded set: the other map[string]bool of the same struct that is marked with true
//   event        a primitive instruction (mark / unmark of A, mark of L, record = store into
//                ResolvedJournal.Files, recursive call, cache lookup) or a call of a helper outside S that
//                (transitively, bounded) contains such an instruction; path rules are evaluated in the
//                function of S that contains the event
//
// Rules: G-ANCESTOR, G-GUARD, G-DEPTH, G-ONCE, G-CONTINUE (ruleLoaderCycle); G-CACHEPATH, G-CACHEINDEP
// (ruleLoaderCache; G-STATE, G-CACHEFIELDS, G-INVALIDATE stay in loaderrules.go).

import (
	"fmt"
	"go/constant"
	"go/token"
	"go/types"
	"os"
	"sort"
	"strings"

	"golang.org/x/tools/go/ssa"
)

type loaderSSA struct {
	c      *Ctx
	pk     *ssa.Package
	fns    []*ssa.Function
	scc    map[*ssa.Function]bool
	A, L   any // set identities (ancestor set, loaded set): a struct field, or a class of map values passed along as arguments
	uf     map[any]any
	cache  *types.Var // the loader's per-file cache map field
	cycleK int64      // value of ErrorCycleDetected
	hasK   bool
	memo   map[string]map[*ssa.Function]bool
}

func fieldVarOfAddr(v ssa.Value) *types.Var {
	fa, ok := v.(*ssa.FieldAddr)
	if !ok {
		return nil
	}
	st, ok := fa.X.Type().Underlying().(*types.Pointer).Elem().Underlying().(*types.Struct)
	if !ok {
		return nil
	}
	return st.Field(fa.Field)
}

// mapFieldOf: the struct field a map value was loaded from (m = *(&x.f)), or nil.
func mapFieldOf(v ssa.Value) *types.Var {
	if ld, ok := v.(*ssa.UnOp); ok && ld.Op == token.MUL {
		return fieldVarOfAddr(ld.X)
	}
	if f, ok := v.(*ssa.Field); ok {
		if st, ok := f.X.Type().Underlying().(*types.Struct); ok {
			return st.Field(f.Field)
		}
	}
	return nil
}

func buildLoaderSSA(c *Ctx, rule string) *loaderSSA {
	ls := &loaderSSA{c: c, pk: c.P.SSAPkg("internal/include"), scc: map[*ssa.Function]bool{}, memo: map[string]map[*ssa.Function]bool{}}
	for _, f := range c.P.ModuleFuncs() {
		top := f
		for top.Parent() != nil {
			top = top.Parent()
		}
		if top.Pkg == ls.pk {
			ls.fns = append(ls.fns, f)
		}
	}
	// S: functions that can reach themselves through static calls inside the package
	calls := map[*ssa.Function][]*ssa.Function{}
	for _, f := range ls.fns {
		for _, b := range f.Blocks {
			for _, ins := range b.Instrs {
				if call, ok := ins.(ssa.CallInstruction); ok {
					if cal := call.Common().StaticCallee(); cal != nil && cal.Pkg == ls.pk {
						calls[f] = append(calls[f], cal)
					}
				}
			}
		}
	}
	for _, f := range ls.fns {
		seen := map[*ssa.Function]bool{}
		w := append([]*ssa.Function{}, calls[f]...)
		for len(w) > 0 {
			x := w[len(w)-1]
			w = w[:len(w)-1]
			if seen[x] {
				continue
			}
			seen[x] = true
			w = append(w, calls[x]...)
		}
		if seen[f] {
			ls.scc[f] = true
		}
	}
	// identities of map[string]bool values passed along as arguments
	ls.uf = map[any]any{}
	for _, f := range ls.fns {
		for _, b := range f.Blocks {
			for _, ins := range b.Instrs {
				call, ok := ins.(ssa.CallInstruction)
				if !ok {
					continue
				}
				cal := call.Common().StaticCallee()
				if cal == nil || cal.Blocks == nil || !inModule(cal) {
					continue
				}
				args := call.Common().Args
				for i, a := range args {
					if i < len(cal.Params) {
						switch a.Type().Underlying().(type) {
						case *types.Map, *types.Slice:
							// a container handed down as an argument is the same container in the callee - except a
							// struct field handed to a small helper method (has/add/remove of a set type): several
							// fields share that helper, which is summarised as an operation on its argument instead
							if k := setKey(a); k != nil {
								if _, isField := k.(*types.Var); !isField {
									ls.union(k, cal.Params[i])
								}
							}
						}
					}
				}
			}
		}
	}
	// the cycle-error kind
	if k, ok := ls.pk.Pkg.Scope().Lookup("ErrorCycleDetected").(*types.Const); ok {
		if v, ok := constant.Int64Val(constant.ToInt(k.Val())); ok {
			ls.cycleK, ls.hasK = v, true
		}
	}
	// A: a membership test (in a map or a slice used as a stack) whose positive outcome is necessary for reaching a
	// use of the cycle-error constant - directly, through a verdict helper (`switch t.judge(p) { case cycle: ...`)
	// or at the call sites of an error constructor
	for _, f := range ls.fns {
		for _, b := range f.Blocks {
			uses := false
			for _, ins := range b.Instrs {
				for _, op := range ins.Operands(nil) {
					if op == nil || *op == nil {
						continue
					}
					if k, ok := (*op).(*ssa.Const); ok && ls.hasK && k.Value != nil && k.Value.Kind() == constant.Int && typeHasSuffix(k.Type(), "include.ErrorKind") && k.Int64() == ls.cycleK {
						uses = true
					}
				}
			}
			if !uses {
				continue
			}
			blks := []*ssa.BasicBlock{b}
			for d, frontier := 0, []*ssa.Function{f}; d < 2; d++ {
				var next []*ssa.Function
				for _, h := range frontier {
					for _, site := range (cgView{c}).callersOf(h) {
						blks = append(blks, site.Block())
						next = append(next, site.Parent())
					}
				}
				frontier = next
			}
			for _, blk := range blks {
				if ls.A != nil {
					break
				}
				for _, m := range blockMemberships(blk) {
					if m.pos {
						if k := ls.setOf(m.set); k != nil && ls.A == nil {
							ls.A = k
						}
					}
				}
			}
		}
	}
	// fallback, by role: the ancestor set is the set-like container (map to bool / struct{}, or a slice of paths)
	// of the package that is tested, inserted into AND removed from (a stack discipline); the cycle error may be
	// prepared before the test (`refusal := LoadError{Kind: cycle}; switch { case st.ancestors[p]: ... }`)
	if ls.A == nil {
		type ops struct{ test, ins, rem bool }
		seen := map[any]*ops{}
		var order []any
		setLike := func(v ssa.Value) bool {
			switch t := v.Type().Underlying().(type) {
			case *types.Map:
				return isSetElem(t.Elem())
			case *types.Slice:
				return types.TypeString(t.Elem(), nil) == "string"
			}
			return false
		}
		note := func(v ssa.Value, f func(o *ops)) {
			if v == nil || !setLike(v) {
				return
			}
			k := ls.setOf(v)
			if k == nil {
				return
			}
			if seen[k] == nil {
				seen[k] = &ops{}
				order = append(order, k)
			}
			f(seen[k])
		}
		for _, f := range ls.fns {
			for _, b := range f.Blocks {
				for _, ins := range b.Instrs {
					if v, ok := memberTest(ins); ok {
						note(v, func(o *ops) { o.test = true })
					}
					if v, ok := insertInto(ins); ok {
						note(v, func(o *ops) { o.ins = true })
					}
					if v, ok := removeFrom(ins); ok {
						note(v, func(o *ops) { o.rem = true })
					}
				}
			}
		}
		for _, k := range order {
			if o := seen[k]; o.test && o.ins && o.rem && ls.A == nil {
				ls.A = k
			}
		}
	}
	// the per-file cache: the map field of the loader that is looked up
	for _, f := range ls.fns {
		for _, b := range f.Blocks {
			for _, ins := range b.Instrs {
				if x, ok := ins.(*ssa.Lookup); ok {
					if ld, ok := x.X.(*ssa.UnOp); ok {
						if fa, ok := ld.X.(*ssa.FieldAddr); ok && typeHasSuffix(fa.X.Type(), "include.Loader") {
							if _, isMap := x.X.Type().Underlying().(*types.Map); isMap {
								ls.cache = fieldVarOfAddr(fa)
							}
						}
					}
				}
			}
		}
	}
	// L: the container (other than A) whose negative membership is necessary for recording a file in the result;
	// it may be the result's own Files map.  Fallback: a set-like map other than A that receives `true` / struct{}{}.
	for _, f := range ls.fns {
		for _, b := range f.Blocks {
			for _, ins := range b.Instrs {
				if !ls.isRecord(ins) {
					continue
				}
				blks := []*ssa.BasicBlock{b}
				for d, frontier := 0, []*ssa.Function{f}; d < 2; d++ {
					var next []*ssa.Function
					for _, h := range frontier {
						if ls.scc[h] && d > 0 {
							continue
						}
						for _, site := range (cgView{c}).callersOf(h) {
							blks = append(blks, site.Block())
							next = append(next, site.Parent())
						}
					}
					frontier = next
				}
				for _, blk := range blks {
					for _, m := range blockMemberships(blk) {
						if k := ls.setOf(m.set); !m.pos && k != nil && k != ls.A && ls.L == nil && (ls.cache == nil || k != any(ls.cache)) {
							ls.L = k
						}
					}
				}
			}
		}
	}
	if ls.L == nil {
		for _, f := range ls.fns {
			for _, b := range f.Blocks {
				for _, ins := range b.Instrs {
					if x, ok := ins.(*ssa.MapUpdate); ok {
						mt, _ := x.Map.Type().Underlying().(*types.Map)
						if fv := ls.setOf(x.Map); fv != nil && fv != ls.A && mt != nil && isSetElem(mt.Elem()) && types.TypeString(mt.Key(), nil) == "string" {
							ls.L = fv
						}
					}
				}
			}
		}
	}
	if os.Getenv("HLDEBUG_LOADER") != "" {
		fmt.Fprintf(os.Stderr, "loader roles: A=%v L=%v cache=%v\n", ls.A, ls.L, ls.cache)
	}
	if len(ls.scc) == 0 || ls.A == nil {
		c.undecided(rule, "include", "include recursion", token.NoPos,
			fmt.Sprintf("could not identify the include recursion (recursive functions: %d, ancestor set found: %v)", len(ls.scc), ls.A != nil))
		return nil
	}
	return ls
}

// ---- events

func (ls *loaderSSA) isMarkA(ins ssa.Instruction) bool {
	v, ok := insertInto(ins)
	return ok && ls.A != nil && ls.setOf(v) == ls.A
}
func (ls *loaderSSA) isUnmarkA(ins ssa.Instruction) bool {
	if v, ok := removeFrom(ins); ok && ls.A != nil && ls.setOf(v) == ls.A {
		return true
	}
	// a deferred / called function value (a literal, or the undo function returned by the marking helper)
	// that removes the mark
	var cc *ssa.CallCommon
	switch x := ins.(type) {
	case *ssa.Defer:
		cc = x.Common()
	case *ssa.Call:
		cc = x.Common()
	default:
		return false
	}
	if cc.StaticCallee() != nil || cc.IsInvoke() {
		return false
	}
	for _, fn := range funcsBehind(cc.Value, 0) {
		for _, b := range fn.Blocks {
			for _, i2 := range b.Instrs {
				if v, ok := removeFrom(i2); ok && ls.A != nil && ls.setOf(v) == ls.A {
					return true
				}
			}
		}
	}
	return false
}
func (ls *loaderSSA) isMarkL(ins ssa.Instruction) bool {
	v, ok := insertInto(ins)
	return ok && ls.L != nil && ls.setOf(v) == ls.L
}
func (ls *loaderSSA) isRecord(ins ssa.Instruction) bool {
	mu, ok := ins.(*ssa.MapUpdate)
	if !ok {
		return false
	}
	if ld, ok := mu.Map.(*ssa.UnOp); ok {
		if fa, ok := ld.X.(*ssa.FieldAddr); ok {
			bt := fa.X.Type().Underlying().(*types.Pointer).Elem()
			return typeHasSuffix(bt, "include.ResolvedJournal") && bt.Underlying().(*types.Struct).Field(fa.Field).Name() == "Files"
		}
	}
	return false
}
func (ls *loaderSSA) isCacheLookup(ins ssa.Instruction) bool {
	lk, ok := ins.(*ssa.Lookup)
	return ok && ls.cache != nil && mapFieldOf(lk.X) == ls.cache
}

// contains: function f (outside S) contains, transitively through static callees outside S (bounded), an
// instruction satisfying pred.
func (ls *loaderSSA) contains(name string, f *ssa.Function, pred func(ssa.Instruction) bool, depth int) bool {
	if f == nil || f.Blocks == nil || ls.scc[f] || depth > 3 {
		return false
	}
	if m := ls.memo[name]; m != nil {
		if v, ok := m[f]; ok {
			return v
		}
	} else {
		ls.memo[name] = map[*ssa.Function]bool{}
	}
	ls.memo[name][f] = false
	res := false
	for _, b := range f.Blocks {
		for _, ins := range b.Instrs {
			if pred(ins) {
				res = true
			}
			if call, ok := ins.(ssa.CallInstruction); ok {
				if cal := call.Common().StaticCallee(); cal != nil && inModule(cal) && ls.contains(name, cal, pred, depth+1) {
					res = true
				}
			}
		}
	}
	ls.memo[name][f] = res
	return res
}

// event: ins is the primitive, or a call (or defer) of a helper outside S that contains it.
func (ls *loaderSSA) event(name string, ins ssa.Instruction, pred func(ssa.Instruction) bool) bool {
	if pred(ins) {
		return true
	}
	if call, ok := ins.(ssa.CallInstruction); ok {
		if _, isGo := ins.(*ssa.Go); isGo {
			return false
		}
		if cal := call.Common().StaticCallee(); cal != nil && inModule(cal) && !ls.scc[cal] {
			return ls.contains(name, cal, pred, 0)
		}
	}
	return false
}

func (ls *loaderSSA) isRecursiveCall(ins ssa.Instruction) bool {
	call, ok := ins.(ssa.CallInstruction)
	if !ok {
		return false
	}
	cal := call.Common().StaticCallee()
	return cal != nil && ls.scc[cal]
}

// escapes: starting after instruction `from` (in its function), a Return can be reached without passing an
// instruction satisfying stop.
func escapes(from ssa.Instruction, stop func(ssa.Instruction) bool) bool {
	b := from.Block()
	idx := 0
	for i, x := range b.Instrs {
		if x == from {
			idx = i + 1
		}
	}
	seen := map[*ssa.BasicBlock]bool{}
	var visit func(b *ssa.BasicBlock, i int) bool
	visit = func(b *ssa.BasicBlock, i int) bool {
		for ; i < len(b.Instrs); i++ {
			if stop(b.Instrs[i]) {
				return false
			}
			switch b.Instrs[i].(type) {
			case *ssa.Return:
				return true
			}
		}
		for _, s := range b.Succs {
			if seen[s] {
				continue
			}
			seen[s] = true
			if visit(s, 0) {
				return true
			}
		}
		return false
	}
	return visit(b, idx)
}

// sccMembersAndHelpers: functions in which path rules are evaluated: the members of S.
func (ls *loaderSSA) members() []*ssa.Function {
	var out []*ssa.Function
	for f := range ls.scc {
		out = append(out, f)
	}
	sort.Slice(out, func(i, j int) bool { return funcName(out[i]) < funcName(out[j]) })
	return out
}

// condSliceHas: some control condition of the block (in its function) has a backward slice containing an
// instruction satisfying pred (the slice descends into callees' results, so a test made by a helper counts).
func condSliceHas(b *ssa.BasicBlock, pred func(ssa.Instruction) bool) bool {
	for _, cc := range controlCondsPol(b) {
		out := map[ssa.Value]bool{}
		sliceWithControl(cc.Cond, 0, out)
		for v := range out {
			if ins, ok := v.(ssa.Instruction); ok && pred(ins) {
				return true
			}
		}
	}
	return false
}

// sliceWithControl: the backward data slice of v, extended - for every module function whose result is in the
// slice - by the conditions that decide which of the callee's return statements is taken (a verdict helper
// returns nil or an error depending on its tests; the tests are not in the data slice of the results).
func sliceWithControl(v ssa.Value, depth int, out map[ssa.Value]bool) {
	for w := range backSlice(v) {
		if out[w] {
			continue
		}
		out[w] = true
		if phi, isPhi := w.(*ssa.Phi); isPhi && depth < 3 {
			// which value a merge point carries is decided by the branches leading to it
			for _, pb := range phi.Block().Preds {
				for _, cc := range controlCondsPol(pb) {
					if !out[cc.Cond] {
						sliceWithControl(cc.Cond, depth+1, out)
					}
				}
			}
		}
		call, ok := w.(*ssa.Call)
		if ex, isEx := w.(*ssa.Extract); isEx && !ok {
			// one of several results (`data, ok := cache.previousData(uri, id)`)
			call, ok = ex.Tuple.(*ssa.Call)
		}
		if !ok || depth >= 3 {
			continue
		}
		cal := call.Call.StaticCallee()
		if cal == nil || cal.Blocks == nil || !inModule(cal) {
			continue
		}
		nConds := 0
		for _, rb := range cal.Blocks {
			if len(rb.Instrs) == 0 {
				continue
			}
			if _, isRet := rb.Instrs[len(rb.Instrs)-1].(*ssa.Return); !isRet {
				continue
			}
			for _, cc := range controlCondsPol(rb) {
				nConds++
				if !out[cc.Cond] {
					sliceWithControl(cc.Cond, depth+1, out)
				}
			}
		}
		// the callee's tests look at its parameters: what the caller passes decides as well
		if nConds > 0 {
			for _, a := range call.Call.Args {
				if !out[a] {
					sliceWithControl(a, depth+1, out)
				}
			}
		}
	}
}

func (ls *loaderSSA) isLookupIn(set any) func(ssa.Instruction) bool {
	return func(ins ssa.Instruction) bool {
		v, ok := memberTest(ins)
		return ok && set != nil && ls.setOf(v) == set
	}
}

// funcsBehind: the functions a function value can stand for: a literal, a local variable holding one, the
// literal(s) returned by a module function call.
func funcsBehind(v ssa.Value, depth int) []*ssa.Function {
	if depth > 3 {
		return nil
	}
	if fn := resolveLocalFunc(v); fn != nil {
		return []*ssa.Function{fn}
	}
	var out []*ssa.Function
	switch x := v.(type) {
	case *ssa.Call:
		if h := x.Call.StaticCallee(); h != nil && h.Blocks != nil && inModule(h) {
			for _, b := range h.Blocks {
				for _, ins := range b.Instrs {
					if r, ok := ins.(*ssa.Return); ok && len(r.Results) >= 1 {
						out = append(out, funcsBehind(unspillResult(r.Results[0], b), depth+1)...)
					}
				}
			}
		}
	case *ssa.Phi:
		for _, e := range x.Edges {
			out = append(out, funcsBehind(e, depth+1)...)
		}
	}
	return out
}

// setOf: the identity of a map value: the struct field it is loaded from, or the class of parameters / fresh
// maps it is passed along with (union over the package's call sites).
func (ls *loaderSSA) setOf(v ssa.Value) any {
	k := setKey(v)
	if k == nil {
		return nil
	}
	return ls.find(k)
}

func setKey(v ssa.Value) any {
	if fv := mapFieldOf(v); fv != nil {
		return fv
	}
	switch x := v.(type) {
	case *ssa.Parameter:
		return x
	case *ssa.MakeMap:
		return x
	case *ssa.Slice:
		return setKey(x.X) // a re-slice of the same stack
	case *ssa.Call:
		// append(s, x) is still s
		if bi, ok := x.Call.Value.(*ssa.Builtin); ok && bi.Name() == "append" && len(x.Call.Args) > 0 {
			return setKey(x.Call.Args[0])
		}
	}
	return nil
}

// ---- the set abstraction: a set of paths is a map (to bool / struct{} / anything) or a slice used as a stack.

// memberTest: the instruction tests membership of a value in a container: `m[k]`, `_, ok := m[k]`,
// slices.Contains(s, k).  Returns the container value.
func memberTest(ins ssa.Instruction) (ssa.Value, bool) {
	if !helperOff {
		// a `has` method: returns the outcome of a membership test on its parameter
		if call, ok := ins.(*ssa.Call); ok {
			if cal := call.Call.StaticCallee(); cal != nil && cal.Blocks != nil && inModule(cal) && len(cal.Blocks) == 1 &&
				cal.Signature.Results().Len() == 1 && types.TypeString(cal.Signature.Results().At(0).Type(), nil) == "bool" {
				helperFieldTests = true
				v, ok := helperOp(ins, memberTest)
				helperFieldTests = false
				if ok {
					return v, true
				}
			}
		}
	}
	switch x := ins.(type) {
	case *ssa.Lookup:
		if _, isMap := x.X.Type().Underlying().(*types.Map); isMap {
			return x.X, true
		}
	case *ssa.Call:
		cal := x.Call.StaticCallee()
		if cal == nil {
			return nil, false
		}
		name := cal.String()
		if o := cal.Origin(); o != nil {
			name = o.String()
		}
		if (name == "slices.Contains" || name == "slices.Index") && len(x.Call.Args) == 2 {
			return x.Call.Args[0], true
		}
	}
	return nil, false
}

// helperOp: the call (or deferred call) invokes a small module function that performs `op` directly on one of its
// parameters: the operation is then one on the corresponding argument.
func helperOp(ins ssa.Instruction, op func(ssa.Instruction) (ssa.Value, bool)) (ssa.Value, bool) {
	var cc *ssa.CallCommon
	switch x := ins.(type) {
	case *ssa.Call:
		cc = x.Common()
	case *ssa.Defer:
		cc = x.Common()
	default:
		return nil, false
	}
	cal := cc.StaticCallee()
	if cal == nil || cal.Blocks == nil || !inModule(cal) || len(cal.Blocks) > 4 {
		return nil, false
	}
	for _, b := range cal.Blocks {
		for _, i2 := range b.Instrs {
			if _, isCall := i2.(ssa.CallInstruction); isCall {
				if _, isB := i2.(ssa.CallInstruction).Common().Value.(*ssa.Builtin); !isB {
					if c2 := i2.(ssa.CallInstruction).Common().StaticCallee(); c2 == nil || inModule(c2) {
						continue // not entered recursively
					}
				}
			}
			v, ok := opNoHelper(i2, op)
			if !ok {
				continue
			}
			if p, isParam := v.(*ssa.Parameter); isParam {
				for i, q := range cal.Params {
					if q == p && i < len(cc.Args) {
						return cc.Args[i], true
					}
				}
			}
			// ... or (tests only) on a container that is identified by the struct field it lives in (t.out.Files)
			if k := setKey(v); k != nil && helperFieldTests {
				if _, isField := k.(*types.Var); isField {
					return v, true
				}
			}
		}
	}
	return nil, false
}

var helperOff bool

// helperFieldTests: helperOp also accepts an operation on a container held in a struct field (set while a
// membership-test helper is summarised).
var helperFieldTests bool

func opNoHelper(ins ssa.Instruction, op func(ssa.Instruction) (ssa.Value, bool)) (ssa.Value, bool) {
	old := helperOff
	helperOff = true
	v, ok := op(ins)
	helperOff = old
	return v, ok
}

// insertInto / removeFrom: the instruction adds an element to / removes one from a container; returns the
// container's identity value.
func insertInto(ins ssa.Instruction) (ssa.Value, bool) {
	if !helperOff {
		if v, ok := helperOp(ins, insertInto); ok {
			return v, true
		}
	}
	switch x := ins.(type) {
	case *ssa.MapUpdate:
		return x.Map, true
	case *ssa.Store:
		// s = append(s, x)
		if call, ok := x.Val.(*ssa.Call); ok {
			if bi, ok := call.Call.Value.(*ssa.Builtin); ok && bi.Name() == "append" && len(call.Call.Args) == 2 {
				if _, isSlice := call.Type().Underlying().(*types.Slice); isSlice {
					if ld, ok := call.Call.Args[0].(*ssa.UnOp); ok && ld.Op == token.MUL && sameAddr(ld.X, x.Addr, 0) {
						return call.Call.Args[0], true
					}
				}
			}
		}
	}
	return nil, false
}

func removeFrom(ins ssa.Instruction) (ssa.Value, bool) {
	if !helperOff {
		if v, ok := helperOp(ins, removeFrom); ok {
			return v, true
		}
	}
	switch x := ins.(type) {
	case *ssa.Call:
		if bi, ok := x.Call.Value.(*ssa.Builtin); ok && bi.Name() == "delete" && len(x.Call.Args) == 2 {
			return x.Call.Args[0], true
		}
	case *ssa.Defer:
		if bi, ok := x.Call.Value.(*ssa.Builtin); ok && bi.Name() == "delete" && len(x.Call.Args) == 2 {
			return x.Call.Args[0], true
		}
	case *ssa.Store:
		// s = s[:len(s)-1]
		if sl, ok := x.Val.(*ssa.Slice); ok {
			if ld, ok := sl.X.(*ssa.UnOp); ok && ld.Op == token.MUL && sameAddr(ld.X, x.Addr, 0) {
				return sl.X, true
			}
		}
	}
	return nil, false
}

func (ls *loaderSSA) find(k any) any {
	for {
		p, ok := ls.uf[k]
		if !ok || p == k {
			return k
		}
		k = p
	}
}

func (ls *loaderSSA) union(a, b any) {
	ra, rb := ls.find(a), ls.find(b)
	if ra == rb {
		return
	}
	// prefer a field as the representative
	if _, isField := rb.(*types.Var); isField {
		ra, rb = rb, ra
	}
	ls.uf[rb] = ra
}

func ruleLoaderCycle(c *Ctx) {
	ls := buildLoaderSSA(c, "G-ANCESTOR")
	if ls == nil {
		return
	}
	// --- G-ANCESTOR: every mark of the ancestor set is removed on every exit of the function it is made in.  A
	// helper that leaves its mark standing (`enter`, possibly returning the undo function) hands the obligation to
	// its callers: there the call is the mark event.  A function that removes its own marks is not one.
	leaves := map[*ssa.Function]int{} // 0 unknown, 1 leaves a mark, 2 clean
	var leavesMark func(f *ssa.Function, depth int) bool
	unmarkAt := func(x ssa.Instruction) bool { return ls.isUnmarkA(x) }
	var markEvent func(ins ssa.Instruction, depth int) bool
	markEvent = func(ins ssa.Instruction, depth int) bool {
		if ls.isMarkA(ins) {
			return true
		}
		if call, ok := ins.(*ssa.Call); ok {
			if cal := call.Call.StaticCallee(); cal != nil && cal.Blocks != nil && inModule(cal) && !ls.scc[cal] {
				return leavesMark(cal, depth+1)
			}
		}
		return false
	}
	var unmarkEvent func(ins ssa.Instruction) bool
	unmarkEvent = func(ins ssa.Instruction) bool {
		if unmarkAt(ins) {
			return true
		}
		if call, ok := ins.(ssa.CallInstruction); ok {
			if _, isGo := ins.(*ssa.Go); isGo {
				return false
			}
			if cal := call.Common().StaticCallee(); cal != nil && cal.Blocks != nil && inModule(cal) && !ls.scc[cal] {
				return ls.contains("unmarkA", cal, ls.isUnmarkA, 0) && !leavesMark(cal, 1)
			}
		}
		return false
	}
	// a deferred unmark discharges the exits that follow its registration - a return between the mark and the
	// `defer` (a fast path for leaf files) leaves the mark standing
	unmarkOrDeferred := func(x ssa.Instruction) bool {
		if d, ok := x.(*ssa.Defer); ok && unmarkAt(d) {
			return true
		}
		return unmarkEvent(x)
	}
	leavesMark = func(f *ssa.Function, depth int) bool {
		if depth > 3 {
			return false
		}
		if v := leaves[f]; v != 0 {
			return v == 1
		}
		leaves[f] = 2
		for _, b := range f.Blocks {
			for _, ins := range b.Instrs {
				if markEvent(ins, depth) && escapes(ins, unmarkOrDeferred) {
					leaves[f] = 1
					return true
				}
			}
		}
		return false
	}
	nMarks := 0
	for _, f := range ls.fns {
		for _, b := range f.Blocks {
			for _, ins := range b.Instrs {
				if !markEvent(ins, 0) {
					continue
				}
				// the marking helper itself: judged at its call sites
				if !ls.scc[f] && leavesMark(f, 0) && len(cgView{c}.callersOf(f)) > 0 {
					continue
				}
				nMarks++
				okRemoved := !escapes(ins, unmarkOrDeferred)
				c.check(okRemoved, "G-ANCESTOR", funcName(f), "ancestor mark removed on exit", ins.Pos(),
					"the mark placed on entry is removed on every exit (ancestor-stack discipline)",
					"a file is marked in the set tested by the cycle check but the mark is not removed on every exit: 'currently being included' degenerates to 'seen before', so a file reached twice along different acyclic paths (a diamond) is reported as a cycle")
			}
		}
	}
	c.census("G-ANCESTOR", "marks of the ancestor set", nMarks, 1)

	ruleLoaderGuard(c, ls)
	ruleLoaderBase(c, ls)
	ls.checkLoadState(c)

	// --- G-DEPTH: the value compared with the depth limit is the size of the ancestor set
	nDepth := 0
	for _, f := range ls.fns {
		for _, b := range f.Blocks {
			for _, ins := range b.Instrs {
				bo, ok := ins.(*ssa.BinOp)
				if !ok {
					continue
				}
				isLimit := func(v ssa.Value) bool {
					for w := range backSlice(v) {
						if fv := mapFieldOf(w); fv != nil && fv.Name() == "MaxIncludeDepth" {
							return true
						}
						if fa, ok := w.(*ssa.FieldAddr); ok {
							if fv := fieldVarOfAddr(fa); fv != nil && fv.Name() == "MaxIncludeDepth" {
								return true
							}
						}
						if fl, ok := w.(*ssa.Field); ok {
							if st, ok := fl.X.Type().Underlying().(*types.Struct); ok && st.Field(fl.Field).Name() == "MaxIncludeDepth" {
								return true
							}
						}
					}
					return false
				}
				var other ssa.Value
				switch {
				case isLimit(bo.Y) && !isLimit(bo.X):
					other = bo.X
				case isLimit(bo.X) && !isLimit(bo.Y):
					other = bo.Y
				default:
					continue
				}
				switch bo.Op {
				case token.LSS, token.LEQ, token.GTR, token.GEQ:
				default:
					continue
				}
				if k, isConst := other.(*ssa.Const); isConst && k.Value != nil {
					continue // `limit <= 0` in a normaliser
				}
				nDepth++
				okD := false
				for w := range backSlice(other) {
					if call, ok := w.(*ssa.Call); ok {
						if bi, ok := call.Call.Value.(*ssa.Builtin); ok && bi.Name() == "len" && len(call.Call.Args) == 1 && ls.setOf(call.Call.Args[0]) == ls.A {
							okD = true
						}
					}
				}
				if !okD {
					okD = ls.isDepthCounter(stripConv(other), map[*ssa.Parameter]bool{})
				}
				c.check(okD, "G-DEPTH", funcName(f), "depth limit compared with the ancestor depth", bo.Pos(),
					"the depth limit is compared with the length of the include stack",
					"the value compared with the include depth limit is not the depth of the include stack (the size of the ancestor set): a wide, shallow include tree trips the depth limit")
				// G-ORDER: the depth verdict is only asked for a target that is neither an ancestor (that is a cycle,
				// reported as such) nor already part of the result (a diamond, not an error)
				notAnc := ls.notInOnChain(c, b, ls.A, 0)
				notLoaded := ls.L == nil || ls.notInOnChain(c, b, ls.L, 0)
				c.check(notAnc && notLoaded, "G-ORDER", funcName(f), "depth limit tested after the cycle and already-loaded tests", bo.Pos(),
					"the depth comparison is only reached for a target that is neither on the include stack nor already loaded",
					fmt.Sprintf("the include depth limit is tested before the target is known to be neither an ancestor nor already loaded (after ancestor test: %v, after loaded test: %v): at the depth limit a cycle is reported as 'too deep' and a file that is already part of the result produces an error", notAnc, notLoaded))
			}
		}
	}
	c.census("G-DEPTH", "comparisons with the include depth limit", nDepth, 1)

	// --- G-ONCE: a file is recorded only after the loaded-set test, and marked loaded exactly when recorded
	if ls.L == nil {
		c.finding("G-ONCE", "include", "already-loaded test", token.NoPos, "the include step has no set of already loaded files: a file reached along two acyclic paths is loaded and listed twice")
	} else {
		nRecSites, nMarkL := 0, 0
		for _, f := range ls.members() {
			for _, b := range f.Blocks {
				for _, ins := range b.Instrs {
					if ls.event("record", ins, ls.isRecord) {
						nRecSites++
						tested := condSliceHas(b, ls.isLookupIn(ls.L)) || ls.notInOnChain(c, b, ls.L, 0)
						// marked before: a mark event of L dominates the record (or precedes it in the block)
						marked := false
						for _, b2 := range f.Blocks {
							for i2, x := range b2.Instrs {
								if !ls.event("markL", x, ls.isMarkL) {
									continue
								}
								if b2 == b {
									for j, y := range b.Instrs {
										if y == ins && i2 <= j {
											marked = true
										}
									}
								} else if b2.Dominates(b) {
									marked = true
								}
							}
						}
						c.check(tested && marked, "G-ONCE", funcName(f), "recorded only once", ins.Pos(),
							"recording a file is preceded by the already-loaded test and the mark", "a file is recorded in the result without being tested against and marked in the set of loaded files first: it can be recorded again through another include path")
					}
					if ls.event("markL", ins, ls.isMarkL) {
						nMarkL++
						bad := escapes(ins, func(x ssa.Instruction) bool { return ls.event("record", x, ls.isRecord) })
						// the record may be the same helper call that marks
						if ls.event("record", ins, ls.isRecord) {
							bad = false
						}
						c.check(!bad, "G-ONCE", funcName(f), "marked loaded only when recorded", ins.Pos(),
							"every path from the 'loaded' mark to the exit records the file in the result",
							"a file is marked as loaded on a path that can still return without recording it (missing, oversized or too deep): later include directives naming it are silently skipped and a reachable file is missing from the result")
					}
				}
			}
		}
		// key agreement: where one function marks a file as loaded and records it in the result, both name the
		// file by the same value (C20-m28: `st.loaded[basePath] = true` next to `result.Files[includePath] = ...` - two
		// strings in scope, the including file marked instead of the included one, so a file reached twice is
		// recorded twice)
		for _, f := range ls.members() {
			var marks, recs []*ssa.MapUpdate
			for _, b := range f.Blocks {
				for _, ins := range b.Instrs {
					mu, ok := ins.(*ssa.MapUpdate)
					if !ok {
						continue
					}
					if ls.isRecord(mu) {
						recs = append(recs, mu)
					} else if ls.L != nil && ls.setOf(mu.Map) == ls.L {
						marks = append(marks, mu)
					}
				}
			}
			if len(recs) == 0 {
				continue
			}
			for _, m := range marks {
				same := false
				for _, r := range recs {
					if stripConv(m.Key) == stripConv(r.Key) || sameLoad(stripConv(m.Key), stripConv(r.Key)) {
						same = true
					}
				}
				c.check(same, "G-ONCE", funcName(f), "the file marked as loaded is the file recorded", m.Pos(),
					"the mark in the set of loaded files and the entry in the result's Files use the same key",
					"the key marked in the set of loaded files is not the key under which the file is recorded in the result: the recorded file is never marked, so a file reached along two acyclic include paths (a diamond, a repeated directive, a glob plus an explicit include) is recorded twice - FileOrder lists it twice and every aggregate over the tree counts its entries twice")
			}
		}
		c.census("G-ONCE", "sites recording an included file", nRecSites, 1)
		c.census("G-ONCE", "marks of the loaded set in the include step", nMarkL, 1)
	}

	// --- G-CONTINUE: the loop over the include directives is never left early, and load errors carry the
	// directive's range
	nLoops := 0
	for _, f := range ls.members() {
		for _, b := range f.Blocks {
			// loop header of a range over the include directives: the index test `i < len(x)` with x a slice of ast.Include
			isHdr := false
			for _, ins := range b.Instrs {
				if bo, ok := ins.(*ssa.BinOp); ok && bo.Op == token.LSS {
					if call, ok := bo.Y.(*ssa.Call); ok {
						if bi, ok := call.Call.Value.(*ssa.Builtin); ok && bi.Name() == "len" && len(call.Call.Args) == 1 {
							if sl, ok := call.Call.Args[0].Type().Underlying().(*types.Slice); ok {
								et := sl.Elem()
								if pt, ok := et.Underlying().(*types.Pointer); ok {
									et = pt.Elem()
								}
								if typeHasSuffix(et, "ast.Include") {
									isHdr = true
								}
							}
						}
					}
				}
			}
			if !isHdr || !inCycle(b) {
				continue
			}
			nLoops++
			// blocks of the loop: those that can reach the header and are reachable from it
			early := ""
			for _, lb := range f.Blocks {
				if lb == b || !reachesBlock(b, lb) || !reachesBlock(lb, b) {
					continue
				}
				for _, s := range lb.Succs {
					if s != b && !reachesBlock(s, b) {
						early = "a branch out of the loop at " + c.P.pos(lb.Instrs[len(lb.Instrs)-1].Pos())
					}
				}
				for _, ins := range lb.Instrs {
					if _, isRet := ins.(*ssa.Return); isRet {
						early = "return at " + c.P.pos(ins.Pos())
					}
				}
			}
			c.check(early == "", "G-CONTINUE", funcName(f), "include loop never aborts", b.Instrs[0].Pos(),
				"a failing include does not stop the remaining includes from loading (no return/break in the loop)",
				"the loop over include directives can be left early ("+early+"): one missing, oversized or too-deep include stops the remaining includes from loading")
		}
	}
	c.census("G-CONTINUE", "loops over include directives on the recursion", nLoops, 1)
	ci := buildConc(c)
	nErr := 0
	var parseKind int64 = -1
	if pk, ok := ls.pk.Pkg.Scope().Lookup("ErrorParseError").(*types.Const); ok {
		parseKind, _ = constant.Int64Val(constant.ToInt(pk.Val()))
	}
	onRecursion := map[*ssa.Function]bool{}
	for m := range ls.scc {
		for g := range Reach(ci.g, []*ssa.Function{m}, true) {
			onRecursion[g] = true
		}
	}
	for _, f := range ls.fns {
		if !onRecursion[f] {
			continue
		}
		// constructions of a LoadError: the stores into the fields of one base address
		type cons struct {
			pos   token.Pos
			kind  ssa.Value
			rng   ssa.Value
			order int
		}
		byBase := map[ssa.Value]*cons{}
		var bases []ssa.Value
		for _, b := range f.Blocks {
			for _, ins := range b.Instrs {
				st, ok := ins.(*ssa.Store)
				if !ok {
					continue
				}
				fa, ok := st.Addr.(*ssa.FieldAddr)
				if !ok || !typeHasSuffix(fa.X.Type(), "include.LoadError") {
					continue
				}
				cn := byBase[fa.X]
				if cn == nil {
					cn = &cons{pos: st.Pos()}
					byBase[fa.X] = cn
					bases = append(bases, fa.X)
				}
				switch fieldVarOfAddr(fa).Name() {
				case "Kind":
					cn.kind = st.Val
				case "Range":
					cn.rng = st.Val
					cn.pos = st.Pos()
				}
			}
		}
		for _, base := range bases {
			cn := byBase[base]
			// errors found inside a file (parse errors) are positioned in that file, not on a directive
			if k, ok := cn.kind.(*ssa.Const); ok && k.Value != nil && k.Value.Kind() == constant.Int && k.Int64() == parseKind {
				continue
			}
			nErr++
			hasRange := false
			if cn.rng != nil {
				for w := range sliceUpN(ci, cn.rng, f, 6) { // a constructor of errors may sit several helpers below the loop over the directives
					var bt types.Type
					var name string
					switch x := w.(type) {
					case *ssa.FieldAddr:
						bt = x.X.Type().Underlying().(*types.Pointer).Elem()
						name = fieldVarOfAddr(x).Name()
					case *ssa.Field:
						bt = x.X.Type()
						if stt, ok := bt.Underlying().(*types.Struct); ok {
							name = stt.Field(x.Field).Name()
						}
					}
					if bt != nil && name == "Range" && typeHasSuffix(bt, "ast.Include") {
						hasRange = true
					}
				}
			}
			if !hasRange && cn.rng == nil {
				// the variable was initialised as a whole (a literal copied into it) and only some fields are set
				// afterwards: the range is the one of the copied value
				if refs := base.Referrers(); refs != nil {
					for _, r := range *refs {
						if st, ok := r.(*ssa.Store); ok && st.Addr == base {
							if isIncludeRangeSlice(sliceUp(ci, st.Val, f)) {
								hasRange = true
							}
						}
					}
				}
			}
			if !hasRange && cn.rng == nil && !ls.scc[f] {
				// an error built by a helper without a position: every caller on the recursion fills it in
				hasRange = ls.rangeFilledByCallers(c, ci, f, onRecursion, 0)
			}
			c.check(hasRange, "G-CONTINUE", funcName(f), "load error carries the directive's range", cn.pos,
				"error is reported on the include directive that names the file",
				"a load error built while processing an include does not carry the include directive's range: the diagnostic is not attached to the directive that names the file")
		}
	}
	c.census("G-CONTINUE", "load errors built on the include recursion", nErr, 1)
	ruleCanonicalPaths(c)
}

// ruleLoaderCacheSSA: G-CACHEPATH and G-CACHEINDEP.
func ruleLoaderCacheSSA(c *Ctx) *loaderSSA {
	ls := buildLoaderSSA(c, "G-CACHEPATH")
	if ls == nil {
		return nil
	}
	// G-CACHEPATH: every record of an included file is followed, on every path to the exit, by a call into the
	// recursion (the file's own includes are processed) - whether the parse result came from the cache or not
	nRec := 0
	for _, f := range ls.members() {
		for _, b := range f.Blocks {
			for _, ins := range b.Instrs {
				if !ls.event("record", ins, ls.isRecord) {
					continue
				}
				nRec++
				bad := escapes(ins, ls.isRecursiveCall)
				c.check(!bad, "G-CACHEPATH", funcName(f), "recorded file's own includes are followed", ins.Pos(),
					"every path that records an included file goes on to process that file's include directives (cache hit and miss alike)",
					"an included file is recorded in the result on a path that returns without processing the file's own include directives (e.g. a cache-hit short cut): files two levels down vanish from the second load on")
			}
		}
	}
	c.census("G-CACHEPATH", "sites recording an included file", nRec, 1)
	// G-CACHEINDEP: the content-independent verdicts (cycle, already loaded, depth) do not depend on whether the
	// file happens to be cached
	nVerdict := 0
	for _, f := range ls.fns {
		for _, b := range f.Blocks {
			for _, ins := range b.Instrs {
				what := ""
				if set, isTest := memberTest(ins); isTest {
					if fv := ls.setOf(set); fv != nil && (fv == ls.A || fv == ls.L) {
						what = "membership test in the ancestor set"
						if fv == ls.L {
							what = "membership test in the loaded set"
						}
					}
				}
				switch x := ins.(type) {
				case *ssa.BinOp:
					for _, side := range []ssa.Value{x.X, x.Y} {
						for w := range backSlice(side) {
							if fa, ok := w.(*ssa.FieldAddr); ok {
								if fv := fieldVarOfAddr(fa); fv != nil && fv.Name() == "MaxIncludeDepth" {
									if _, isConst := x.X.(*ssa.Const); !isConst {
										if _, isConst2 := x.Y.(*ssa.Const); !isConst2 {
											what = "depth-limit test"
										}
									}
								}
							}
						}
					}
				}
				if what == "" {
					continue
				}
				nVerdict++
				// the verdict's own function and - for a helper - the call sites leading to it
				blks := []*ssa.BasicBlock{b}
				for fn, depth := f, 0; !ls.scc[fn] && depth < 3; depth++ {
					sites := cgView{c}.callersOf(fn)
					if len(sites) != 1 {
						break
					}
					blks = append(blks, sites[0].Block())
					fn = sites[0].Parent()
				}
				dep := false
				for _, blk := range blks {
					if condSliceHas(blk, ls.isCacheLookup) {
						dep = true
					}
				}
				c.check(!dep, "G-CACHEINDEP", funcName(f), what+" independent of the cache", ins.Pos(),
					"the verdict is taken whether or not the file's parse result is cached",
					"the "+what+" is only evaluated depending on whether the file happens to be cached: the result of a load depends on what was loaded before")
			}
		}
	}
	c.census("G-CACHEINDEP", "content-independent verdicts in the include step", nVerdict, 2)
	// G-CACHEPURE: what is put into the per-file cache depends on the file alone - not on the include directive that
	// happened to ask first (its position) nor on the including file
	nPut := 0
	for _, f := range ls.fns {
		for _, b := range f.Blocks {
			for _, ins := range b.Instrs {
				mu, ok := ins.(*ssa.MapUpdate)
				if !ok || ls.cache == nil || mapFieldOf(mu.Map) != ls.cache {
					continue
				}
				nPut++
				bad := ""
				sl, unbound := backSlicePrecise(mu.Value)
				for v := range sl {
					if v == nil {
						continue
					}
					if prm, isParam := v.(*ssa.Parameter); isParam {
						if _, free := unbound[prm]; !free {
							continue // a parameter of a helper that the slice entered with its arguments bound
						}
					}
					t := v.Type()
					if pt, ok := t.Underlying().(*types.Pointer); ok {
						t = pt.Elem()
					}
					switch x := v.(type) {
					case *ssa.Parameter:
						if typeHasSuffix(t, "ast.Range") || typeHasSuffix(t, "ast.Include") {
							bad = "the position of the include directive (parameter " + x.Name() + ")"
						}
					case *ssa.FieldAddr:
						if typeHasSuffix(x.X.Type(), "ast.Include") && fieldVarOfAddr(x).Name() == "Range" {
							bad = "the position of the include directive"
						}
						if typeHasSuffix(x.X.Type(), "include.Limits") {
							bad = "a configured limit (" + fieldVarOfAddr(x).Name() + "): a later change of the setting does not reach files judged before"
						}
					case *ssa.Field:
						if typeHasSuffix(x.X.Type(), "include.Limits") {
							bad = "a configured limit: a later change of the setting does not reach files judged before"
						}
					}
				}
				// ... nor is any part of the entry filled in (or left empty) depending on a configured limit: a file that
				// was "too large" when it was first seen stays a journal-less entry after the limit was raised
				if bad == "" {
					for v := range sl {
						al, isAlloc := v.(*ssa.Alloc)
						if !isAlloc || al.Referrers() == nil {
							continue
						}
						for _, r := range *al.Referrers() {
							fa, isFa := r.(*ssa.FieldAddr)
							if !isFa || fa.Referrers() == nil {
								continue
							}
							for _, r2 := range *fa.Referrers() {
								st, isSt := r2.(*ssa.Store)
								if !isSt || st.Addr != ssa.Value(fa) {
									continue
								}
								// only conditions under which the entry is stored either way (a limit that makes the load give up
								// before anything is cached is not a cached verdict): both branches reach the store into the
								// cache, one of them fills the field in
								for _, d := range st.Parent().Blocks {
									ifi, isIf := lastInstr(d).(*ssa.If)
									if !isIf || len(d.Succs) != 2 {
										continue
									}
									if !(reachesBlock(d.Succs[0], mu.Block()) && reachesBlock(d.Succs[1], mu.Block())) {
										continue
									}
									r0, r1 := reachesBlock(d.Succs[0], st.Block()), reachesBlock(d.Succs[1], st.Block())
									if r0 == r1 {
										continue
									}
									cc := ctrlCond{Cond: ifi.Cond}
									for w := range backSlice(cc.Cond) {
										switch x := w.(type) {
										case *ssa.FieldAddr:
											if typeHasSuffix(x.X.Type(), "include.Limits") {
												bad = "a verdict taken under a configured limit (" + fieldVarOfAddr(x).Name() + " decides whether " + fieldVarOfAddr(fa).Name() + " is filled in): a later change of the setting does not reach files judged before"
											}
										case *ssa.Field:
											if typeHasSuffix(x.X.Type(), "include.Limits") {
												bad = "a verdict taken under a configured limit: a later change of the setting does not reach files judged before"
											}
										}
									}
								}
							}
						}
					}
				}
				c.check(bad == "", "G-CACHEPURE", funcName(f), "cached entry depends on the file alone", mu.Pos(),
					"nothing of the including directive flows into the cache entry",
					"the entry stored in the per-file cache carries "+bad+": later loads that reach the file through another directive (or after the directive moved) are answered with the first asker's data")
			}
		}
	}
	c.census("G-CACHEPURE", "stores into the per-file cache", nPut, 1)
	ruleCacheFromDisk(c, ls)
	ls.checkLoadState(c)
	return ls
}

// isDepthCounter: v is a parameter of a function on the recursion (or of a helper called from it with such a
// parameter) that every call inside the recursion passes on as `p` or `p + 1` of a depth counter, at least one
// of them incrementing it: the parameter then counts the include depth.
func (ls *loaderSSA) isDepthCounter(v ssa.Value, seen map[*ssa.Parameter]bool) bool {
	p, ok := v.(*ssa.Parameter)
	if !ok {
		return false
	}
	if seen[p] {
		return true
	}
	seen[p] = true
	f := p.Parent()
	idx := -1
	for i, q := range f.Params {
		if q == p {
			idx = i
		}
	}
	if idx < 0 {
		return false
	}
	n, inc := 0, false
	var check func(arg ssa.Value) bool
	check = func(arg ssa.Value) bool {
		arg = stripConv(arg)
		if bo, ok := arg.(*ssa.BinOp); ok && bo.Op == token.ADD {
			if k, ok := bo.Y.(*ssa.Const); ok && k.Value != nil && k.Value.Kind() == constant.Int && k.Int64() == 1 {
				if ls.isDepthCounter(stripConv(bo.X), seen) {
					inc = true
					return true
				}
			}
			return false
		}
		return ls.isDepthCounter(arg, seen)
	}
	for _, g := range ls.fns {
		if !ls.scc[g] && !ls.scc[f] {
			continue
		}
		for _, b := range g.Blocks {
			for _, ins := range b.Instrs {
				call, ok := ins.(ssa.CallInstruction)
				if !ok || call.Common().StaticCallee() != f || !ls.scc[g] {
					continue
				}
				args := call.Common().Args
				if idx >= len(args) {
					return false
				}
				n++
				if !check(args[idx]) {
					return false
				}
			}
		}
	}
	if !ls.scc[f] {
		return n > 0 // a helper: its argument is a depth counter of the recursion
	}
	return n > 0 && (inc || ls.anyIncrement(seen))
}

// anyIncrement: among the parameters visited, some call passes `p + 1`.
func (ls *loaderSSA) anyIncrement(seen map[*ssa.Parameter]bool) bool {
	for _, g := range ls.members() {
		for _, b := range g.Blocks {
			for _, ins := range b.Instrs {
				call, ok := ins.(ssa.CallInstruction)
				if !ok || !ls.isRecursiveCall(ins) {
					continue
				}
				for _, a := range call.Common().Args {
					if bo, ok := stripConv(a).(*ssa.BinOp); ok && bo.Op == token.ADD {
						if p, ok := stripConv(bo.X).(*ssa.Parameter); ok && seen[p] {
							if k, ok := bo.Y.(*ssa.Const); ok && k.Value != nil && k.Value.Kind() == constant.Int && k.Int64() == 1 {
								return true
							}
						}
					}
				}
			}
		}
	}
	return false
}

func isIncludeRangeSlice(sl map[ssa.Value]bool) bool {
	for w := range sl {
		var bt types.Type
		var name string
		switch x := w.(type) {
		case *ssa.FieldAddr:
			bt = x.X.Type().Underlying().(*types.Pointer).Elem()
			name = fieldVarOfAddr(x).Name()
		case *ssa.Field:
			bt = x.X.Type()
			if stt, ok := bt.Underlying().(*types.Struct); ok {
				name = stt.Field(x.Field).Name()
			}
		}
		if bt != nil && name == "Range" && typeHasSuffix(bt, "ast.Include") {
			return true
		}
	}
	return false
}

// rangeFilledByCallers: f returns (a pointer to) a load error it built without a position; every call site of f
// on the include recursion stores the directive's range into the returned error (or hands the obligation on
// to its own callers when it is itself a helper).
func (ls *loaderSSA) rangeFilledByCallers(c *Ctx, ci *concInfo, f *ssa.Function, onRecursion map[*ssa.Function]bool, depth int) bool {
	if depth > 3 {
		return false
	}
	sites := cgView{c}.callersOf(f)
	n := 0
	for _, site := range sites {
		g := site.Parent()
		if !onRecursion[g] && !ls.scc[g] {
			continue // e.g. reading the root file: no directive is involved
		}
		n++
		v, ok := site.(ssa.Value)
		if !ok {
			return false
		}
		derived := map[ssa.Value]bool{v: true}
		for _, r := range *v.Referrers() {
			if ex, ok := r.(*ssa.Extract); ok {
				derived[ex] = true
			}
		}
		filled := false
		for _, b := range g.Blocks {
			for _, ins := range b.Instrs {
				st, ok := ins.(*ssa.Store)
				if !ok {
					continue
				}
				fa, ok := st.Addr.(*ssa.FieldAddr)
				if !ok || !derived[fa.X] || fieldVarOfAddr(fa).Name() != "Range" {
					continue
				}
				if isIncludeRangeSlice(sliceUp(ci, st.Val, g)) {
					filled = true
				}
			}
		}
		if filled {
			continue
		}
		if ls.scc[g] || !ls.rangeFilledByCallers(c, ci, g, onRecursion, depth+1) {
			return false
		}
	}
	return n > 0
}

// ruleLoaderGuard (G-GUARD): on every cycle of the include recursion some call is only reached behind the
// ancestor-set test, so a cyclic include graph cannot recurse without bound.
func ruleLoaderGuard(c *Ctx, ls *loaderSSA) {
	// --- G-GUARD: on every cycle of the recursion some call is only reached behind the ancestor test
	guarded := map[[2]*ssa.Function]bool{}
	edges := map[*ssa.Function][]*ssa.Function{}
	nRec := 0
	for _, f := range ls.members() {
		for _, b := range f.Blocks {
			for _, ins := range b.Instrs {
				if !ls.isRecursiveCall(ins) {
					continue
				}
				nRec++
				cal := ins.(ssa.CallInstruction).Common().StaticCallee()
				edges[f] = append(edges[f], cal)
				if condSliceHas(b, ls.isLookupIn(ls.A)) {
					guarded[[2]*ssa.Function{f, cal}] = true
				} else if _, seen := guarded[[2]*ssa.Function{f, cal}]; !seen {
					guarded[[2]*ssa.Function{f, cal}] = false
				}
			}
		}
	}
	// remove guarded edges; the rest must be acyclic
	cyc := false
	for _, f := range ls.members() {
		seen := map[*ssa.Function]bool{}
		var w []*ssa.Function
		for _, g := range edges[f] {
			if !guarded[[2]*ssa.Function{f, g}] {
				w = append(w, g)
			}
		}
		for len(w) > 0 {
			x := w[len(w)-1]
			w = w[:len(w)-1]
			if seen[x] {
				continue
			}
			seen[x] = true
			for _, g := range edges[x] {
				if !guarded[[2]*ssa.Function{x, g}] {
					w = append(w, g)
				}
			}
		}
		if seen[f] {
			cyc = true
		}
	}
	c.check(!cyc, "G-GUARD", "include", "recursion behind the cycle test", token.NoPos,
		"every cycle of the include recursion passes a call that is only reached after the ancestor-set test",
		"the recursive load can be reached without passing the cycle test first: a cyclic include graph recurses without bound")
	c.census("G-GUARD", "recursive calls in the include recursion", nRec, 2)
	// --- G-TESTUSE: the ancestor set is only consulted to report a cycle.  Every membership test of the set decides
	// (in its own function) a block that builds a cycle error; a test that merely filters candidates (a glob
	// expansion that drops matches which are being included) makes the re-entry disappear without a diagnostic.
	nTests := 0
	for _, f := range ls.fns {
		for _, b := range f.Blocks {
			for _, ins := range b.Instrs {
				if !ls.isLookupIn(ls.A)(ins) {
					continue
				}
				tv, ok := ins.(ssa.Value)
				if !ok {
					continue
				}
				nTests++
				// decidesCycle: a block of fn that is decided by v has the cycle kind as an operand (stored into the
				// error, or handed to a constructor of errors)
				hasCycleKind := func(in2 ssa.Instruction) bool {
					for _, op := range in2.Operands(nil) {
						if k, ok := (*op).(*ssa.Const); ok && k.Value != nil && k.Value.Kind() == constant.Int && typeHasSuffix(k.Type(), "include.ErrorKind") {
							if kv, exact := constant.Int64Val(k.Value); exact && kv == ls.cycleK {
								return true
							}
						}
					}
					return false
				}
				var decidesCycle func(fn *ssa.Function, v ssa.Value, depth int) bool
				decidesCycle = func(fn *ssa.Function, v ssa.Value, depth int) bool {
					for _, b2 := range fn.Blocks {
						decided := false
						for _, cc := range controlCondsPol(b2) {
							if backSlice(cc.Cond)[v] {
								decided = true
							}
						}
						if !decided {
							continue
						}
						for _, in2 := range b2.Instrs {
							if hasCycleKind(in2) {
								return true
							}
							// ... or calls a local constructor of errors that names the cycle kind itself
							// (`refuse := func(msg string) (bool, []LoadError) { ... Kind: ErrorCycleDetected ... }`)
							if call, ok := in2.(ssa.CallInstruction); ok {
								var fns []*ssa.Function
								if cal := call.Common().StaticCallee(); cal != nil && inModule(cal) {
									fns = append(fns, cal)
								} else if !call.Common().IsInvoke() {
									fns = funcsBehind(call.Common().Value, 0)
								}
								for _, g := range fns {
									for _, gb := range g.Blocks {
										for _, gi := range gb.Instrs {
											if hasCycleKind(gi) {
												return true
											}
										}
									}
								}
							}
						}
					}
					// the test sits in a predicate (`isAncestor(path) bool`, a verdict helper): its result is judged
					// where it is used - at every call site
					if depth >= 2 {
						return false
					}
					returned := false
					for _, b2 := range fn.Blocks {
						if ret, ok := lastInstr(b2).(*ssa.Return); ok {
							for _, rv := range ret.Results {
								if backSlice(rv)[v] {
									returned = true
								}
							}
							// a verdict computed by branching on the test (`if s.ancestors[p] { return cycle }`)
							for _, cc := range controlCondsPol(b2) {
								if len(ret.Results) > 0 && backSlice(cc.Cond)[v] {
									returned = true
								}
							}
						}
					}
					if !returned {
						return false
					}
					sites := (cgView{c}).callersOf(fn)
					if len(sites) == 0 {
						return false
					}
					for _, site := range sites {
						sv, ok := site.(ssa.Value)
						if !ok || site.Parent() == nil || !decidesCycle(site.Parent(), sv, depth+1) {
							return false
						}
					}
					return true
				}
				reports := decidesCycle(f, tv, 0)
				c.check(reports, "G-TESTUSE", funcName(f), "a test of the ancestor set leads to a cycle diagnostic", ins.Pos(),
					"the membership test decides a block that builds the cycle error",
					"the set of files that are currently being included is consulted without a cycle diagnostic depending on the outcome (a filter): an include that re-enters such a file is dropped silently instead of being reported on the directive that names it")
			}
		}
	}
	c.census("G-TESTUSE", "membership tests of the ancestor set", nTests, 1)

}

func (ls *loaderSSA) checkLoadState(c *Ctx) {
	// G-LOADSTATE: the state of one load consists of the ancestor set and the loaded set; any further map
	// slice it carries is a memo between include steps whose key completeness no rule establishes
	if av, ok := ls.A.(*types.Var); ok && av.IsField() {
		var owner *types.Struct
		var ownerName string
		sc := ls.pk.Pkg.Scope()
		for _, n := range sc.Names() {
			if tn, ok := sc.Lookup(n).(*types.TypeName); ok {
				if st, ok := tn.Type().Underlying().(*types.Struct); ok {
					for i := 0; i < st.NumFields(); i++ {
						if st.Field(i) == av {
							owner, ownerName = st, tn.Name()
						}
					}
				}
			}
		}
		nf := 0
		for i := 0; owner != nil && i < owner.NumFields(); i++ {
			fld := owner.Field(i)
			nf++
			switch fld.Type().Underlying().(type) {
			case *types.Map:
				if fld == av || (ls.L != nil && ls.L == any(fld)) {
					c.ok("G-LOADSTATE", "include."+ownerName, "per-load field "+fld.Name(), fld.Pos(), "ancestor set / loaded set (G-ANCESTOR, G-ONCE)")
				} else {
					c.undecided("G-LOADSTATE", "include."+ownerName, "per-load field "+fld.Name(), fld.Pos(),
						"the state of one load carries an additional "+shortQual(types.TypeString(fld.Type(), nil))+" from one include step to the next; that what it memoises is keyed by everything it depends on (e.g. the including file) is not established by any rule")
				}
			}
		}
		c.census("G-LOADSTATE", "fields of the per-load state examined", nf, 2)
	}
}

type membership struct {
	set ssa.Value // the container
	pos bool      // membership (true) or absence (false) is necessary
}

// necessaryMemberships: membership facts that hold whenever cond evaluates to `taken`: cond is a membership test
// itself, the comparison of a verdict helper's result with a constant (the helper's matching return statements
// are entered), or a boolean helper.
func necessaryMemberships(cond ssa.Value, taken bool, depth int) []membership {
	if depth > 3 || cond == nil {
		return nil
	}
	if u, ok := cond.(*ssa.UnOp); ok && u.Op == token.NOT {
		return necessaryMemberships(u.X, !taken, depth)
	}
	if ex, ok := cond.(*ssa.Extract); ok && ex.Index == 1 {
		if lk, ok := ex.Tuple.(*ssa.Lookup); ok {
			return []membership{{lk.X, taken}}
		}
	}
	if ins, ok := cond.(ssa.Instruction); ok {
		if set, ok := memberTest(ins); ok {
			if lk, isLk := ins.(*ssa.Lookup); !isLk || !lk.CommaOk {
				return []membership{{set, taken}}
			}
		}
	}
	returnsOf := func(cal *ssa.Function, idx int, want func(rv ssa.Value) (match bool, expr ssa.Value)) []membership {
		var out []membership
		for _, b := range cal.Blocks {
			if len(b.Instrs) == 0 {
				continue
			}
			r, ok := b.Instrs[len(b.Instrs)-1].(*ssa.Return)
			if !ok || idx >= len(r.Results) {
				continue
			}
			match, expr := want(unspillResult(r.Results[idx], b))
			if expr != nil {
				out = append(out, necessaryMemberships(expr, taken, depth+1)...)
			}
			if !match {
				continue
			}
			for _, cc := range controlCondsPol(b) {
				out = append(out, necessaryMemberships(cc.Cond, cc.Taken, depth+1)...)
			}
		}
		return out
	}
	switch x := cond.(type) {
	case *ssa.BinOp:
		if x.Op != token.EQL && x.Op != token.NEQ {
			return nil
		}
		eq := (x.Op == token.EQL) == taken
		if !eq {
			return nil
		}
		call, k := x.X, x.Y
		if _, isConst := call.(*ssa.Const); isConst {
			call, k = x.Y, x.X
		}
		kc, ok := k.(*ssa.Const)
		if !ok || kc.Value == nil {
			return nil
		}
		idx := 0
		if ex, ok := call.(*ssa.Extract); ok {
			idx, call = ex.Index, ex.Tuple
		}
		cv, ok := call.(*ssa.Call)
		if !ok {
			return nil
		}
		cal := cv.Call.StaticCallee()
		if cal == nil || cal.Blocks == nil || !inModule(cal) {
			return nil
		}
		return returnsOf(cal, idx, func(rv ssa.Value) (bool, ssa.Value) {
			rc, ok := rv.(*ssa.Const)
			return ok && rc.Value != nil && constant.Compare(rc.Value, token.EQL, kc.Value), nil
		})
	case *ssa.Call:
		cal := x.Call.StaticCallee()
		if cal == nil || cal.Blocks == nil || !inModule(cal) {
			return nil
		}
		return returnsOf(cal, 0, func(rv ssa.Value) (bool, ssa.Value) {
			if rc, ok := rv.(*ssa.Const); ok && rc.Value != nil && rc.Value.Kind() == constant.Bool {
				return constant.BoolVal(rc.Value) == taken, nil
			}
			return false, rv
		})
	case *ssa.Extract:
		// the ok / admitted flag of a multi-result helper
		if cv, ok := x.Tuple.(*ssa.Call); ok {
			cal := cv.Call.StaticCallee()
			if cal == nil || cal.Blocks == nil || !inModule(cal) {
				return nil
			}
			return returnsOf(cal, x.Index, func(rv ssa.Value) (bool, ssa.Value) {
				if rc, ok := rv.(*ssa.Const); ok && rc.Value != nil && rc.Value.Kind() == constant.Bool {
					return constant.BoolVal(rc.Value) == taken, nil
				}
				return false, rv
			})
		}
	}
	return nil
}

// blockMemberships: the membership facts that hold whenever the block is reached: those of each controlling
// condition, and - for a verdict value that the conditions only exclude constants of (`switch v { case a: return;
// case b: return }; rest`) - the facts common to all return statements of the verdict helper that yield one of
// the remaining constants.
func blockMemberships(blk *ssa.BasicBlock) []membership {
	var out []membership
	type exKey struct {
		call *ssa.Call
		idx  int
	}
	excluded := map[exKey][]constant.Value{}
	var order []exKey
	for _, cc := range controlCondsPol(blk) {
		if bo, ok := cc.Cond.(*ssa.BinOp); ok && (bo.Op == token.EQL || bo.Op == token.NEQ) {
			v, k := bo.X, bo.Y
			if _, isConst := v.(*ssa.Const); isConst {
				v, k = bo.Y, bo.X
			}
			if kc, ok := k.(*ssa.Const); ok && kc.Value != nil {
				idx := 0
				if ex, ok := v.(*ssa.Extract); ok {
					idx, v = ex.Index, ex.Tuple
				}
				if call, ok := v.(*ssa.Call); ok && (bo.Op == token.EQL) != cc.Taken {
					key := exKey{call, idx}
					if _, seen := excluded[key]; !seen {
						order = append(order, key)
					}
					excluded[key] = append(excluded[key], kc.Value)
					continue
				}
			}
		}
		out = append(out, necessaryMemberships(cc.Cond, cc.Taken, 0)...)
	}
	for _, key := range order {
		cal := key.call.Call.StaticCallee()
		if cal == nil || cal.Blocks == nil || !inModule(cal) {
			continue
		}
		var common map[string]membership
		n := 0
		for _, b := range cal.Blocks {
			if len(b.Instrs) == 0 {
				continue
			}
			r, ok := b.Instrs[len(b.Instrs)-1].(*ssa.Return)
			if !ok || key.idx >= len(r.Results) {
				continue
			}
			rc, ok := unspillResult(r.Results[key.idx], b).(*ssa.Const)
			if !ok || rc.Value == nil {
				common = map[string]membership{} // a computed verdict: nothing can be concluded
				n++
				continue
			}
			ex := false
			for _, k := range excluded[key] {
				if constant.Compare(rc.Value, token.EQL, k) {
					ex = true
				}
			}
			if ex {
				continue
			}
			n++
			here := map[string]membership{}
			for _, cc := range controlCondsPol(b) {
				for _, m := range necessaryMemberships(cc.Cond, cc.Taken, 1) {
					// a parameter of the helper stands for the argument of this call
					if p, isParam := memberRoot(m.set).(*ssa.Parameter); isParam {
						for i, q := range cal.Params {
							if q == p && i < len(key.call.Call.Args) {
								m.set = rebase(m.set, key.call.Call.Args[i])
							}
						}
					}
					here[fmt.Sprintf("%s|%v", memberDesc(m.set), m.pos)] = m
				}
			}
			if common == nil {
				common = here
			} else {
				for k := range common {
					if _, ok := here[k]; !ok {
						delete(common, k)
					}
				}
			}
		}
		if n > 0 {
			var ks []string
			for k := range common {
				ks = append(ks, k)
			}
			sort.Strings(ks)
			for _, k := range ks {
				out = append(out, common[k])
			}
		}
	}
	return out
}

// memberRoot: the base value a container expression is rooted in (a parameter for `p.field`).
func memberRoot(v ssa.Value) ssa.Value {
	for i := 0; i < 8; i++ {
		switch x := v.(type) {
		case *ssa.UnOp:
			if x.Op == token.MUL {
				v = x.X
				continue
			}
		case *ssa.FieldAddr:
			v = x.X
			continue
		}
		break
	}
	return v
}

// memberDesc: a context-free description of a container expression (field path below its root).
func memberDesc(v ssa.Value) string {
	var parts []string
	for i := 0; i < 8; i++ {
		switch x := v.(type) {
		case *ssa.UnOp:
			if x.Op == token.MUL {
				v = x.X
				continue
			}
		case *ssa.FieldAddr:
			parts = append([]string{fieldVarOfAddr(x).Name()}, parts...)
			v = x.X
			continue
		}
		break
	}
	return fmt.Sprintf("%T:%s", v, strings.Join(parts, "."))
}

// rebase: container expressions are compared through their field identity (setOf), which does not depend on the
// root; the expression itself is kept.
func rebase(set ssa.Value, arg ssa.Value) ssa.Value { return set }

// notInOnChain: a negative membership test in `set` is necessary for reaching block b - in its own function, or
// at every call site of that function (two levels).
func (ls *loaderSSA) notInOnChain(c *Ctx, b *ssa.BasicBlock, set any, depth int) bool {
	for _, m := range blockMemberships(b) {
		if !m.pos && ls.setOf(m.set) == set {
			return true
		}
	}
	if depth >= 2 {
		return false
	}
	sites := (cgView{c}).callersOf(b.Parent())
	if len(sites) == 0 {
		return false
	}
	for _, site := range sites {
		if !ls.notInOnChain(c, site.Block(), set, depth+1) {
			return false
		}
	}
	return true
}
