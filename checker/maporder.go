package main

// Engine B (DESIGN §3.B): map-iteration order reaching an observable.
//
// Subjects: every `range` over a map and every (*sync.Map).Range callback in
// non-test module code.  For each loop the body's effects are computed
// (interprocedurally, with parametric summaries of module callees) and judged
// RELATIVE TO THAT LOOP: an effect is order-insensitive when it commutes with
// itself under permutation of the iterations.

import (
	"fmt"
	"go/ast"
	"go/constant"
	"go/token"
	"go/types"
	"sort"
	"strings"
)

type effKind int

const (
	effAppend    effKind = iota // slice growth / string concat: element order = iteration order
	effOverwrite                // last-wins store of a non-constant value
	effWrite                    // ordered output (strings.Builder, fmt.Fprint*, io.Writer)
	effExit                     // value-dependent early exit (first match wins)
	effUnknown                  // call whose effects are unknown
	effCallParam                // (summaries only) call of a function-valued parameter: resolved at each call site
)

func (k effKind) String() string {
	return [...]string{"append", "overwrite", "ordered-write", "early-exit", "unknown-call", "call-of-parameter"}[k]
}

type mEffect struct {
	Kind     effKind
	Desc     string
	Pos      token.Pos
	Target   types.Object // root variable of the mutated location
	IndexObj types.Object // when the store is m[i] / m[i] = append(m[i],..) and i is a plain identifier
	Indexed  bool
	Via      string
	// TargetParam: in a function summary, the parameter through which the mutated location is
	// reached (0 = receiver, i+1 = parameter i, -1 = none: package-level or unknown).
	TargetParam int
	CallParam   int // effCallParam: index of the function-valued parameter that is called
}

type mapOrder struct {
	c           *Ctx
	p           *Prog
	memo        map[*types.Func][]mEffect
	inProg      map[*types.Func]bool
	nLoops      int
	nSyncMap    int
	nChan       int
	summarising int
}

// total sorts that sanitise a slice collected from a map
var totalSorts = map[string]bool{
	"sort.Strings": true, "sort.Ints": true, "sort.Float64s": true, "slices.Sort": true,
}

func ruleMapOrder(c *Ctx) {
	m := &mapOrder{c: c, p: c.P, memo: map[*types.Func][]mEffect{}, inProg: map[*types.Func]bool{}}
	reach := reachableDecls(c.P)
	for _, fd := range c.P.AllFuncDecls() {
		info := c.P.InfoFor(fd)
		fname := c.P.declName(fd)
		ast.Inspect(fd.Body, func(n ast.Node) bool {
			switch x := n.(type) {
			case *ast.RangeStmt:
				tv := info.TypeOf(x.X)
				if tv == nil {
					return true
				}
				if _, ok := tv.Underlying().(*types.Map); !ok {
					// the order in which values arrive on a channel depends on the scheduling of the senders
					if _, isChan := tv.Underlying().(*types.Chan); isChan {
						m.nChan++
						effs := m.effectsOfRegion(info, fd, x.Body, x.Body.Pos(), x.Body.End(), 0)
						m.conclude(fd, fname, info, "range over channel "+exprStr(m.p.Fset, x.X), x.Pos(), x.End(), map[types.Object]bool{}, effs, reach)
					} else {
						m.judgeRecvLoop(fd, fname, info, x, x.Body, reach)
					}
					return true
				}
				m.nLoops++
				m.judgeLoop(fd, fname, info, x, reach)
			case *ast.ForStmt:
				m.judgeRecvLoop(fd, fname, info, x, x.Body, reach)
			case *ast.CallExpr:
				if qualName(calleeOf(info, x)) == "sync.Map.Range" && len(x.Args) == 1 {
					if fl, ok := ast.Unparen(x.Args[0]).(*ast.FuncLit); ok {
						m.nSyncMap++
						m.judgeSyncRange(fd, fname, info, x, fl, reach)
					} else {
						c.undecided("M-ORDER", fname, "sync.Map.Range with non-literal callback", x.Pos(), "callback is not a function literal; cannot analyse its effects")
					}
				}
			}
			return true
		})
	}
	c.census("M-ORDER", "range-over-map loops", m.nLoops, 30)
	c.census("M-ORDER", "sync.Map.Range callbacks", m.nSyncMap, 1)
}

// judgeRecvLoop: a loop whose body receives values from a channel processes them in arrival order, which
// depends on the scheduling of the sending goroutines; the body's effects are judged like those of a map loop.
func (m *mapOrder) judgeRecvLoop(fd *ast.FuncDecl, fname string, info *types.Info, loop ast.Node, body *ast.BlockStmt, reach map[string]bool) {
	var recv *ast.UnaryExpr
	ast.Inspect(body, func(n ast.Node) bool {
		switch x := n.(type) {
		case *ast.FuncLit:
			return false
		case *ast.UnaryExpr:
			if x.Op == token.ARROW {
				if ct, ok := info.TypeOf(x.X).Underlying().(*types.Chan); ok {
					if st, isStruct := ct.Elem().Underlying().(*types.Struct); !isStruct || st.NumFields() > 0 {
						recv = x // a value is received (signals of type struct{} carry nothing whose order could show)
					}
				}
			}
		}
		return true
	})
	if recv == nil {
		return
	}
	m.nChan++
	effs := m.effectsOfRegion(info, fd, body, body.Pos(), body.End(), 0)
	m.conclude(fd, fname, info, "loop receiving from channel "+exprStr(m.p.Fset, recv.X), loop.Pos(), loop.End(), map[types.Object]bool{}, effs, reach)
}

// reachableDecls: declarations reachable from main/init in the VTA call graph (dead code is not observable).
func reachableDecls(p *Prog) map[string]bool {
	g := p.CallGraph("vta")
	var roots []*ssaFunc
	_ = roots
	out := map[string]bool{}
	mainPkg := p.SSAPkg("cmd/hledger-lsp")
	var rs []*ssaFunc
	if mainPkg != nil {
		if f := mainPkg.Func("main"); f != nil {
			rs = append(rs, f)
		}
	}
	for _, sp := range p.SSA().AllPackages() {
		if strings.HasPrefix(sp.Pkg.Path(), modPath) {
			if f := sp.Func("init"); f != nil {
				rs = append(rs, f)
			}
		}
	}
	for f := range Reach(g, rs, false) {
		if inModule(f) && f.Parent() == nil {
			out[funcName(f)] = true
		}
	}
	return out
}

func rangeDesc(info *types.Info, e ast.Expr) string {
	e = ast.Unparen(e)
	t := info.TypeOf(e)
	ts := "?"
	if t != nil {
		ts = shortQual(types.TypeString(t, nil))
	}
	switch x := e.(type) {
	case *ast.SelectorExpr:
		if sel := info.Selections[x]; sel != nil && sel.Kind() == types.FieldVal {
			recv := sel.Recv()
			if pt, ok := recv.(*types.Pointer); ok {
				recv = pt.Elem()
			}
			return "range field " + shortQual(types.TypeString(recv, nil)) + "." + x.Sel.Name
		}
	case *ast.CallExpr:
		if o := calleeOf(info, x); o != nil {
			return "range result of " + shortQual(qualName(o))
		}
	case *ast.Ident:
		if v, ok := info.Uses[x].(*types.Var); ok {
			if v.IsField() {
				return "range field " + x.Name
			}
			if v.Parent() != nil && v.Parent() == v.Pkg().Scope() {
				return "range package var " + x.Name
			}
			return "range local " + ts
		}
	}
	return "range " + ts
}

func (m *mapOrder) judgeLoop(fd *ast.FuncDecl, fname string, info *types.Info, rs *ast.RangeStmt, reach map[string]bool) {
	desc := rangeDesc(info, rs.X)
	var keyObj types.Object
	if id, ok := rs.Key.(*ast.Ident); ok && id.Name != "_" {
		keyObj = info.Defs[id]
		if keyObj == nil {
			keyObj = info.Uses[id]
		}
	}
	effs := m.effectsOfRegion(info, fd, rs.Body, rs.Body.Pos(), rs.Body.End(), 0)
	m.conclude(fd, fname, info, desc, rs.Pos(), rs.End(), keyAliases(info, rs.Body, keyObj), effs, reach)
}

func (m *mapOrder) judgeSyncRange(fd *ast.FuncDecl, fname string, info *types.Info, call *ast.CallExpr, fl *ast.FuncLit, reach map[string]bool) {
	desc := "sync.Map.Range over " + exprTypeField(info, call)
	var keyObj types.Object
	if fl.Type.Params != nil && len(fl.Type.Params.List) > 0 && len(fl.Type.Params.List[0].Names) > 0 {
		keyObj = info.Defs[fl.Type.Params.List[0].Names[0]]
	}
	effs := m.effectsOfRegion(info, fd, fl.Body, fl.Body.Pos(), fl.Body.End(), 0)
	// `return false` stops the iteration: value-dependent choice of the first element
	ast.Inspect(fl.Body, func(n ast.Node) bool {
		if _, ok := n.(*ast.FuncLit); ok && n != fl {
			return false
		}
		if r, ok := n.(*ast.ReturnStmt); ok && len(r.Results) == 1 {
			if tv, ok := info.Types[r.Results[0]]; ok && tv.Value != nil && tv.Value.Kind() == constant.Bool && !constant.BoolVal(tv.Value) {
				effs = append(effs, mEffect{Kind: effExit, Desc: "iteration stopped at the first element that satisfies a condition (return false)", Pos: r.Pos()})
			}
		}
		return true
	})
	m.conclude(fd, fname, info, desc, call.Pos(), call.End(), keyAliases(info, fl.Body, keyObj), effs, reach)
}

func exprTypeField(info *types.Info, call *ast.CallExpr) string {
	if se, ok := ast.Unparen(call.Fun).(*ast.SelectorExpr); ok {
		if inner, ok := ast.Unparen(se.X).(*ast.SelectorExpr); ok {
			if sel := info.Selections[inner]; sel != nil {
				recv := sel.Recv()
				if pt, ok := recv.(*types.Pointer); ok {
					recv = pt.Elem()
				}
				return "field " + shortQual(types.TypeString(recv, nil)) + "." + inner.Sel.Name
			}
		}
	}
	return "sync.Map"
}

// keyAliases: the loop key and every variable defined in the body as an injective view of it
// (type assertion or conversion: `uri := key.(T)`, `uri, ok := key.(T)`, `u := T(key)`).
func keyAliases(info *types.Info, body ast.Node, keyObj types.Object) map[types.Object]bool {
	al := map[types.Object]bool{}
	if keyObj == nil {
		return al
	}
	al[keyObj] = true
	ast.Inspect(body, func(n ast.Node) bool {
		as, ok := n.(*ast.AssignStmt)
		if !ok || as.Tok != token.DEFINE || len(as.Rhs) != 1 || len(as.Lhs) == 0 {
			return true
		}
		var src ast.Expr
		switch r := ast.Unparen(as.Rhs[0]).(type) {
		case *ast.TypeAssertExpr:
			src = r.X
		case *ast.CallExpr:
			if tv, ok := info.Types[r.Fun]; ok && tv.IsType() && len(r.Args) == 1 {
				src = r.Args[0]
			}
		}
		if id, ok := ast.Unparen(src).(*ast.Ident); ok && src != nil && al[info.Uses[id]] {
			if l, ok := as.Lhs[0].(*ast.Ident); ok && info.Defs[l] != nil {
				al[info.Defs[l]] = true
			}
		}
		return true
	})
	return al
}

func (m *mapOrder) conclude(fd *ast.FuncDecl, fname string, info *types.Info, desc string, pos, end token.Pos, keys map[types.Object]bool, effs []mEffect, reach map[string]bool) {
	var sensitive []mEffect
	for _, e := range effs {
		// store/append at m[key] where key is this loop's key: distinct iterations touch distinct slots
		if e.Indexed && e.IndexObj != nil && keys[e.IndexObj] && (e.Kind == effAppend || e.Kind == effOverwrite) {
			continue
		}
		// append to a function-local slice that is totally sorted before any other use
		if e.Kind == effAppend && !e.Indexed && e.Target != nil && m.sortedAfter(fd, info, e.Target, end, keys) {
			continue
		}
		sensitive = append(sensitive, e)
	}
	if len(sensitive) == 0 {
		m.c.ok("M-ORDER", fname, desc, pos, fmt.Sprintf("%d effects, all order-insensitive relative to this loop", len(effs)))
		return
	}
	// keys collected into a local slice only to be removed one by one afterwards (role: the elements are handed
	// to the workspace index's removal method): removals by key commute, the final state does not depend on
	// the order in which the keys were collected
	allRemoval := true
	for _, e := range sensitive {
		if !(e.Kind == effAppend && !e.Indexed && e.Target != nil && m.consumedByKeyedRemoval(fd, info, e.Target, end)) {
			allRemoval = false
		}
	}
	if allRemoval {
		m.c.ok("M-ORDER", fname, desc, pos, "admitted by role: collects keys to delete, then deletes by key: deletions by key commute (index counters decrement, keyed filters, delete); final state independent of order")
		return
	}
	ssaName := strings.Replace(fname, ".", ".(*", 1)
	_ = ssaName
	if !declReachable(reach, fname) {
		m.c.ok("M-ORDER", fname, desc, pos, "order-sensitive, but the function is unreachable from main in the call graph (not observable)")
		return
	}
	sort.SliceStable(sensitive, func(i, j int) bool {
		return strings.Count(sensitive[i].Via, "->") < strings.Count(sensitive[j].Via, "->")
	})
	var parts []string
	for i, e := range sensitive {
		if i == 3 {
			parts = append(parts, fmt.Sprintf("... %d more", len(sensitive)-3))
			break
		}
		s := fmt.Sprintf("%s: %s", e.Kind, e.Desc)
		if e.Via != "" {
			s += " (via " + e.Via + ")"
		}
		parts = append(parts, s)
	}
	m.c.finding("M-ORDER", fname, desc, pos, "an order that the input does not determine (map iteration, arrival on a channel) reaches an observable value without a total sort: "+strings.Join(parts, "; "))
}

// indexRemovalMethod (role): the method of the workspace index taking (path, *FileIndex) that deletes the
// per-file slot `recv.F[path]`.
func indexRemovalMethod(p *Prog) *ast.FuncDecl {
	pk := p.ByRel["internal/workspace"]
	if pk == nil {
		return nil
	}
	info := pk.TypesInfo
	var out *ast.FuncDecl
	for _, f := range pk.Syntax {
		for _, d := range f.Decls {
			fd, ok := d.(*ast.FuncDecl)
			if !ok || fd.Recv == nil || fd.Body == nil || fd.Type.Params == nil {
				continue
			}
			var pathObj types.Object
			hasFI := false
			for _, fl := range fd.Type.Params.List {
				t := info.TypeOf(fl.Type)
				for _, n := range fl.Names {
					if t != nil && strings.HasSuffix(types.TypeString(t, nil), "workspace.FileIndex") {
						hasFI = true
					} else if b, ok := t.Underlying().(*types.Basic); ok && b.Kind() == types.String {
						pathObj = info.Defs[n]
					}
				}
			}
			if !hasFI || pathObj == nil {
				continue
			}
			recv := recvObj(info, fd)
			ast.Inspect(fd.Body, func(x ast.Node) bool {
				if call, ok := x.(*ast.CallExpr); ok && identOf(call.Fun).Name == "delete" && len(call.Args) == 2 {
					if _, onRecv := rootField(info, call.Args[0], recv); onRecv && info.Uses[identOf(call.Args[1])] == pathObj {
						out = fd
					}
				}
				return true
			})
		}
	}
	return out
}

func callsDecl(p *Prog, from *ast.FuncDecl, target *ast.FuncDecl, depth int) bool {
	if from == nil || from.Body == nil || depth > 2 {
		return false
	}
	if from == target {
		return true
	}
	info := p.InfoFor(from)
	found := false
	ast.Inspect(from.Body, func(x ast.Node) bool {
		if call, ok := x.(*ast.CallExpr); ok && !found {
			if o, ok := calleeOf(info, call).(*types.Func); ok {
				if d := p.declOf[o]; d != nil && callsDecl(p, d, target, depth+1) {
					found = true
				}
			}
		}
		return true
	})
	return found
}

// consumedByKeyedRemoval: obj is a slice local to fd; after `after` it is only ranged over, and the element
// variable of that loop is handed to the workspace index's removal method.
func (m *mapOrder) consumedByKeyedRemoval(fd *ast.FuncDecl, info *types.Info, obj types.Object, after token.Pos) bool {
	if obj.Pos() < fd.Pos() || obj.Pos() > fd.End() {
		return false
	}
	rem := indexRemovalMethod(m.p)
	if rem == nil {
		return false
	}
	ok, removed, returned := true, false, false
	ast.Inspect(fd.Body, func(n ast.Node) bool {
		if rs, isR := n.(*ast.RangeStmt); isR && rs.Pos() > after && info.Uses[identOf(rs.X)] == obj {
			var el types.Object
			if rs.Value != nil {
				el = info.Defs[identOf(rs.Value)]
			}
			ast.Inspect(rs.Body, func(y ast.Node) bool {
				if call, isC := y.(*ast.CallExpr); isC && el != nil {
					for _, a := range call.Args {
						if info.Uses[identOf(a)] == el {
							if o, isF := calleeOf(info, call).(*types.Func); isF {
								if d := m.p.declOf[o]; d != nil && callsDecl(m.p, d, rem, 0) {
									removed = true
								}
							}
						}
					}
				}
				return true
			})
			return false // uses inside this loop are the consumption itself
		}
		if ret, isRet := n.(*ast.ReturnStmt); isRet && ret.Pos() > after && len(ret.Results) == 1 && info.Uses[identOf(ret.Results[0])] == obj {
			returned = true
			return false
		}
		if id, isId := n.(*ast.Ident); isId && id.Pos() > after && info.Uses[id] == obj {
			ok = false // any other use (call argument, index) is not covered by the argument
		}
		return true
	})
	if ok && returned && !removed {
		// the list of keys is handed back: every caller ranges over the call and removes element by element
		// (`for _, path := range w.unreachableIndexedLocked(reachable) { w.forgetFileLocked(path) }`)
		fo := info.Defs[fd.Name]
		sites, good := 0, 0
		for _, od := range m.p.AllFuncDecls() {
			if m.p.pkgOf[od] != m.p.pkgOf[fd] || od.Body == nil {
				continue
			}
			oinfo := m.p.InfoFor(od)
			ast.Inspect(od.Body, func(n ast.Node) bool {
				call, isC := n.(*ast.CallExpr)
				if !isC || calleeOf(oinfo, call) != fo {
					return true
				}
				sites++
				return true
			})
			ast.Inspect(od.Body, func(n ast.Node) bool {
				rs, isR := n.(*ast.RangeStmt)
				if !isR {
					return true
				}
				call, isC := ast.Unparen(rs.X).(*ast.CallExpr)
				if !isC || calleeOf(oinfo, call) != fo || rs.Value == nil {
					return true
				}
				el := oinfo.Defs[identOf(rs.Value)]
				rm := false
				ast.Inspect(rs.Body, func(y ast.Node) bool {
					if c2, isC2 := y.(*ast.CallExpr); isC2 && el != nil {
						for _, a := range c2.Args {
							if oinfo.Uses[identOf(a)] == el {
								if o, isF := calleeOf(oinfo, c2).(*types.Func); isF {
									if d := m.p.declOf[o]; d != nil && callsDecl(m.p, d, rem, 0) {
										rm = true
									}
								}
							}
						}
					}
					return true
				})
				if rm {
					good++
				}
				return true
			})
		}
		return sites > 0 && sites == good
	}
	return ok && removed && !returned
}

// declReachable maps "pkg.Recv.Func" onto the SSA naming used by reachableDecls.
func declReachable(reach map[string]bool, fname string) bool {
	parts := strings.Split(fname, ".")
	var cands []string
	switch len(parts) {
	case 2:
		cands = []string{parts[0] + "." + parts[1]}
	case 3:
		cands = []string{fmt.Sprintf("(*%s.%s).%s", parts[0], parts[1], parts[2]), fmt.Sprintf("(%s.%s).%s", parts[0], parts[1], parts[2])}
	}
	for _, c := range cands {
		if reach[c] {
			return true
		}
		// package names equal the last path element for all module packages; cmd/hledger-lsp is "main"
		if reach[strings.Replace(c, "main.", "cmd/hledger-lsp.", 1)] {
			return true
		}
	}
	return false
}

// sortedAfter: obj is a slice variable local to fd; after position `after` the first
// statement mentioning it is a total sort of exactly that variable.
func (m *mapOrder) sortedAfter(fd *ast.FuncDecl, info *types.Info, obj types.Object, after token.Pos, keys map[types.Object]bool) bool {
	if obj.Pos() < fd.Pos() || obj.Pos() > fd.End() {
		return false // not local to this function
	}
	type use struct {
		pos    token.Pos
		sorted bool
	}
	var uses []use
	var sortCalls []*ast.CallExpr
	ast.Inspect(fd.Body, func(n ast.Node) bool {
		if call, ok := n.(*ast.CallExpr); ok && call.Pos() > after {
			q := qualName(calleeOf(info, call))
			if totalSorts[q] && len(call.Args) == 1 {
				if id, ok := ast.Unparen(call.Args[0]).(*ast.Ident); ok && info.Uses[id] == obj {
					sortCalls = append(sortCalls, call)
				}
			}
			// sort.Slice(x, func(i, j int) bool { return x[i].F < x[j].F }) where F holds this loop's (unique) key
			if (q == "sort.Slice" || q == "sort.SliceStable" || q == "slices.SortFunc" || q == "slices.SortStableFunc") && len(call.Args) == 2 {
				if id, ok := ast.Unparen(call.Args[0]).(*ast.Ident); ok && info.Uses[id] == obj {
					if f, ok := singleKeyComparator(info, call.Args[1], obj); ok && appendsCarryKey(fd, info, obj, f, after, keys) {
						sortCalls = append(sortCalls, call)
					}
				}
			}
			// sort.Sort(sort.StringSlice(x)) / sort.Sort(sort.Reverse(sort.StringSlice(x)))
			if q == "sort.Sort" && len(call.Args) == 1 {
				if id := innermostIdent(call.Args[0]); id != nil && info.Uses[id] == obj {
					sortCalls = append(sortCalls, call)
				}
			}
		}
		return true
	})
	if len(sortCalls) == 0 {
		return false
	}
	first := sortCalls[0]
	ast.Inspect(fd.Body, func(n ast.Node) bool {
		if id, ok := n.(*ast.Ident); ok && id.Pos() > after && info.Uses[id] == obj {
			uses = append(uses, use{id.Pos(), id.Pos() >= first.Pos() && id.End() <= first.End()})
		}
		return true
	})
	sort.Slice(uses, func(i, j int) bool { return uses[i].pos < uses[j].pos })
	return len(uses) > 0 && uses[0].sorted
}

func innermostIdent(e ast.Expr) *ast.Ident {
	for {
		switch x := ast.Unparen(e).(type) {
		case *ast.CallExpr:
			if len(x.Args) != 1 {
				return nil
			}
			e = x.Args[0]
		case *ast.Ident:
			return x
		default:
			return nil
		}
	}
}

// effectsOfRegion computes the escaping, potentially order-sensitive effects of the
// statements in `body`.  A variable is local to the region when it is declared
// inside [lo,hi]; effects on region-local variables do not escape.
func (m *mapOrder) effectsOfRegion(info *types.Info, fd *ast.FuncDecl, body ast.Node, lo, hi token.Pos, depth int) []mEffect {
	var out []mEffect
	local := func(o types.Object) bool { return o != nil && o.Pos() >= lo && o.Pos() <= hi }
	isConst := func(e ast.Expr) bool {
		if e == nil {
			return false
		}
		if tv, ok := info.Types[e]; ok && (tv.Value != nil || tv.IsNil()) {
			return true
		}
		if id, ok := ast.Unparen(e).(*ast.Ident); ok && (id.Name == "true" || id.Name == "false" || id.Name == "nil") {
			return true
		}
		return false
	}
	ast.Inspect(body, func(n ast.Node) bool {
		switch s := n.(type) {
		case *ast.AssignStmt:
			for i, lhs := range s.Lhs {
				var rhs ast.Expr
				if len(s.Rhs) == len(s.Lhs) {
					rhs = s.Rhs[i]
				} else if len(s.Rhs) == 1 {
					rhs = s.Rhs[0]
				}
				if s.Tok == token.DEFINE {
					continue
				}
				root, idxObj, indexed := lvalueRoot(info, lhs)
				if root == nil {
					continue
				}
				if local(root) && !aliasesOuter(info, root) {
					continue
				}
				lt := info.TypeOf(lhs)
				// compound assignment
				if s.Tok != token.ASSIGN {
					if lt != nil {
						if b, ok := lt.Underlying().(*types.Basic); ok && b.Info()&types.IsString != 0 && s.Tok == token.ADD_ASSIGN {
							out = append(out, mEffect{Kind: effAppend, Desc: "string concatenation onto " + exprStr(m.p.Fset, lhs), Pos: s.Pos(), Target: root, IndexObj: idxObj, Indexed: indexed})
						}
					}
					continue // numeric op= is commutative
				}
				if rhs == nil {
					continue
				}
				// x = append(x, ...)
				if call, ok := ast.Unparen(rhs).(*ast.CallExpr); ok {
					if id, ok := ast.Unparen(call.Fun).(*ast.Ident); ok && id.Name == "append" && info.Uses[id] == types.Universe.Lookup("append") {
						out = append(out, mEffect{Kind: effAppend, Desc: "append to " + exprStr(m.p.Fset, lhs), Pos: s.Pos(), Target: root, IndexObj: idxObj, Indexed: indexed})
						continue
					}
					// x = x.Add(e) on decimal: exact addition commutes
					if se, ok := ast.Unparen(call.Fun).(*ast.SelectorExpr); ok {
						q := qualName(calleeOf(info, call))
						if strings.HasPrefix(q, "github.com/shopspring/decimal.Decimal.") && (se.Sel.Name == "Add" || se.Sel.Name == "Sub") && sameExpr(m.p.Fset, se.X, lhs) {
							continue
						}
					}
					// x = max(x, e) / min
					if id, ok := ast.Unparen(call.Fun).(*ast.Ident); ok && (id.Name == "max" || id.Name == "min") {
						continue
					}
				}
				if isConst(rhs) {
					continue
				}
				// make(...) / composite literal of empty container at the loop key is initialisation
				if isFreshContainer(info, rhs) {
					continue
				}
				// guarded max/min idiom: if e > x { x = e }
				if guardedExtremum(info, m.p.Fset, body, s, lhs, rhs) {
					continue
				}
				out = append(out, mEffect{Kind: effOverwrite, Desc: "last-wins store " + exprStr(m.p.Fset, lhs) + " = " + exprStr(m.p.Fset, rhs), Pos: s.Pos(), Target: root, IndexObj: idxObj, Indexed: indexed})
			}
		case *ast.IncDecStmt:
			// commutative
		case *ast.ReturnStmt:
			// handled by callers that care (value-dependent exit from a map range)
			if depth == 0 && len(s.Results) > 0 {
				allConst := true
				for _, r := range s.Results {
					if !isConst(r) {
						allConst = false
					}
				}
				if !allConst && enclosingFuncLit(body, s) == nil {
					out = append(out, mEffect{Kind: effExit, Desc: "value-dependent return from inside the loop: " + exprStr(m.p.Fset, s), Pos: s.Pos()})
				}
			}
		case *ast.CallExpr:
			out = append(out, m.callEffects(info, fd, s, local, depth)...)
		}
		return true
	})
	return out
}

// aliasesOuter: a region-local variable of pointer/map type that was initialised from an
// outer expression still designates outer state (p := &tx.Postings[j]).  We only treat
// pointer-typed locals as aliases; slices/maps obtained from calls are fresh.
func aliasesOuter(info *types.Info, o types.Object) bool {
	return false
}

func enclosingFuncLit(root ast.Node, target ast.Node) *ast.FuncLit {
	var found *ast.FuncLit
	var stack []*ast.FuncLit
	ast.Inspect(root, func(n ast.Node) bool {
		if n == nil {
			return true
		}
		if n == target {
			if len(stack) > 0 {
				found = stack[len(stack)-1]
			}
			return false
		}
		if fl, ok := n.(*ast.FuncLit); ok {
			if fl.Pos() <= target.Pos() && target.End() <= fl.End() {
				stack = append(stack, fl)
			}
		}
		return true
	})
	return found
}

func isFreshContainer(info *types.Info, e ast.Expr) bool {
	switch x := ast.Unparen(e).(type) {
	case *ast.CallExpr:
		if id, ok := ast.Unparen(x.Fun).(*ast.Ident); ok && id.Name == "make" {
			return true
		}
	case *ast.CompositeLit:
		return len(x.Elts) == 0
	}
	return false
}

func sameExpr(fset *token.FileSet, a, b ast.Expr) bool {
	return exprStr(fset, a) == exprStr(fset, b)
}

// guardedExtremum recognises `if e > x { x = e }` (any of < <= > >=) where the assignment is the
// only statement affecting x in the if-body.
func guardedExtremum(info *types.Info, fset *token.FileSet, region ast.Node, as *ast.AssignStmt, lhs, rhs ast.Expr) bool {
	ok := false
	ast.Inspect(region, func(n ast.Node) bool {
		ifs, isIf := n.(*ast.IfStmt)
		if !isIf || ifs.Else != nil {
			return true
		}
		inBody := false
		for _, st := range ifs.Body.List {
			if st == ast.Stmt(as) {
				inBody = true
			}
		}
		if !inBody || len(ifs.Body.List) != 1 {
			return true
		}
		cond := ifs.Cond
		if be, isBin := ast.Unparen(cond).(*ast.BinaryExpr); isBin {
			switch be.Op {
			case token.GTR, token.LSS, token.GEQ, token.LEQ:
				l, r := exprStr(fset, be.X), exprStr(fset, be.Y)
				x, e := exprStr(fset, lhs), exprStr(fset, rhs)
				if (l == e && r == x) || (l == x && r == e) {
					ok = true
				}
			}
		}
		return true
	})
	return ok
}

// lvalueRoot returns the root variable of an assignable expression, and, when the outermost
// step is an index into a map (m[i] = ... or m[i][j] = ...), the object of the FIRST index if it
// is a plain identifier.
func lvalueRoot(info *types.Info, e ast.Expr) (root types.Object, idxObj types.Object, indexed bool) {
	e = ast.Unparen(e)
	first := true
	for {
		switch x := e.(type) {
		case *ast.Ident:
			if x.Name == "_" {
				return nil, nil, false
			}
			o := info.Uses[x]
			if o == nil {
				o = info.Defs[x]
			}
			return o, idxObj, indexed
		case *ast.SelectorExpr:
			first = false
			e = ast.Unparen(x.X)
		case *ast.IndexExpr:
			if t := info.TypeOf(x.X); t != nil {
				if _, isMap := t.Underlying().(*types.Map); isMap {
					// remember the index closest to the root map (outermost map level)
					indexed = true
					idxObj = nil
					if id, ok := ast.Unparen(x.Index).(*ast.Ident); ok {
						idxObj = info.Uses[id]
					}
				}
			}
			_ = first
			e = ast.Unparen(x.X)
		case *ast.StarExpr:
			e = ast.Unparen(x.X)
		default:
			return nil, nil, false
		}
	}
}

var orderedWriters = map[string]bool{
	"strings.Builder.WriteString": true, "strings.Builder.WriteByte": true, "strings.Builder.WriteRune": true, "strings.Builder.Write": true,
	"bytes.Buffer.WriteString": true, "bytes.Buffer.WriteByte": true, "bytes.Buffer.Write": true, "bytes.Buffer.WriteRune": true,
	"fmt.Fprintf": true, "fmt.Fprint": true, "fmt.Fprintln": true, "fmt.Printf": true, "fmt.Println": true, "fmt.Print": true,
}

func (m *mapOrder) callEffects(info *types.Info, fd *ast.FuncDecl, call *ast.CallExpr, local func(types.Object) bool, depth int) []mEffect {
	callee := calleeOf(info, call)
	q := qualName(callee)
	if orderedWriters[q] {
		// writing to a region-local builder does not escape
		if se, ok := ast.Unparen(call.Fun).(*ast.SelectorExpr); ok && !strings.HasPrefix(q, "fmt.") {
			if r, _, _ := lvalueRoot(info, se.X); r != nil && local(r) {
				return nil
			}
		}
		if strings.HasPrefix(q, "fmt.F") && len(call.Args) > 0 {
			a := ast.Unparen(call.Args[0])
			if u, ok := a.(*ast.UnaryExpr); ok {
				a = u.X
			}
			if r, _, _ := lvalueRoot(info, a); r != nil && local(r) {
				return nil
			}
		}
		return []mEffect{{Kind: effWrite, Desc: "ordered output via " + shortQual(q), Pos: call.Pos()}}
	}
	switch fn := callee.(type) {
	case *types.Func:
		if fn.Pkg() == nil || !strings.HasPrefix(fn.Pkg().Path(), modPath) {
			return nil // standard library / third party: assumed free of order-sensitive effects on module state
		}
		decl := m.p.declOf[fn]
		if decl == nil || decl.Body == nil {
			if types.IsInterface(fn.Type().(*types.Signature).Recv().Type()) {
				return []mEffect{{Kind: effUnknown, Desc: "dynamic call " + shortQual(q), Pos: call.Pos()}}
			}
			return nil
		}
		sum := m.summary(fn, decl)
		var out []mEffect
		for _, e := range sum {
			if e.Kind == effCallParam {
				out = append(out, m.substituteFuncArg(info, fd, call, e, local, depth, shortQual(q))...)
				continue
			}
			ne := e
			ne.Pos = call.Pos()
			if ne.Via == "" {
				ne.Via = shortQual(q)
			} else {
				ne.Via = shortQual(q) + " -> " + ne.Via
			}
			// bind index parameter to the argument at this site
			if e.Indexed && e.IndexObj != nil {
				ne.IndexObj = nil
				if pi := paramIndex(fn, e.IndexObj); pi >= 0 && pi < len(call.Args) {
					if id, ok := ast.Unparen(call.Args[pi]).(*ast.Ident); ok {
						ne.IndexObj = info.Uses[id]
					}
				}
			}
			// bind the mutated location to the caller's argument: effects on state that is local to
			// the caller's region (e.g. a freshly allocated parser) do not escape it
			ne.Target = nil
			if e.TargetParam >= 0 {
				var arg ast.Expr
				if e.TargetParam == 0 {
					if se, ok := ast.Unparen(call.Fun).(*ast.SelectorExpr); ok {
						arg = se.X
					}
				} else if e.TargetParam-1 < len(call.Args) {
					arg = call.Args[e.TargetParam-1]
				}
				if arg != nil {
					if u, ok := ast.Unparen(arg).(*ast.UnaryExpr); ok && u.Op == token.AND {
						arg = u.X
					}
					if r, _, _ := lvalueRoot(info, arg); r != nil {
						if local(r) {
							continue
						}
						ne.Target = r
					}
				}
			}
			ne.TargetParam = -1
			out = append(out, ne)
		}
		return out
	case *types.Var:
		// call of a local function value: find `name := func(...) {...}` in the enclosing declaration
		if fl := findFuncLitFor(info, fd, fn); fl != nil {
			all := m.effectsOfRegion(info, fd, fl.Body, fl.Pos(), fl.End(), depth+1)
			var effs []mEffect
			for _, e := range all {
				// captured variables that are local to the calling region do not escape it
				if e.Target != nil && local(e.Target) {
					continue
				}
				effs = append(effs, e)
			}
			// bind closure parameters used as index to the call-site arguments
			for i := range effs {
				if effs[i].Indexed && effs[i].IndexObj != nil {
					if pi := litParamIndex(info, fl, effs[i].IndexObj); pi >= 0 && pi < len(call.Args) {
						if id, ok := ast.Unparen(call.Args[pi]).(*ast.Ident); ok {
							effs[i].IndexObj = info.Uses[id]
						} else {
							effs[i].IndexObj = nil
						}
					}
				}
				if effs[i].Via == "" {
					effs[i].Via = "closure " + fn.Name()
				}
			}
			return effs
		}
		if sig, ok := fn.Type().Underlying().(*types.Signature); ok {
			// the `yield` of an iterator literal (func(yield func(T) bool)): what it runs is the body of the consumer's
			// range loop, whose effects are accounted for where that loop is written
			if sig.Results().Len() == 1 && types.TypeString(sig.Results().At(0).Type(), nil) == "bool" && isIteratorYield(info, fd, fn) {
				return nil
			}
			// inside a summary the call of a function-valued parameter stays symbolic: each call site of the
			// summarised function substitutes what it passes
			if m.summarising > 0 {
				if pi := declParamIndex(info, fd, fn); pi >= 0 {
					return []mEffect{{Kind: effCallParam, CallParam: pi, Desc: "call of function parameter " + fn.Name(), Pos: call.Pos(), TargetParam: -1}}
				}
			}
			// a function-valued parameter of the enclosing declaration: the union of what is passed at the call
			// sites of that declaration
			if effs, ok := m.paramFuncEffects(info, fd, fn, depth); ok {
				for i := range effs {
					effs[i].Pos = call.Pos()
					if effs[i].Via == "" {
						effs[i].Via = "function parameter " + fn.Name()
					}
				}
				return effs
			}
			return []mEffect{{Kind: effUnknown, Desc: "call of function value " + fn.Name(), Pos: call.Pos()}}
		}
	}
	return nil
}

// paramFuncEffects: v is a function-typed parameter of fd; returns the effects of every function value passed
// for it anywhere in the module (declared functions by their summaries, literals by their bodies).  ok is false
// if v is not a parameter, fd has no call site, or some argument cannot be resolved.
func (m *mapOrder) paramFuncEffects(info *types.Info, fd *ast.FuncDecl, v *types.Var, depth int) ([]mEffect, bool) {
	if depth > 3 || fd.Type.Params == nil {
		return nil, false
	}
	idx, i := -1, 0
	for _, fl := range fd.Type.Params.List {
		for _, n := range fl.Names {
			if info.Defs[n] == v {
				idx = i
			}
			i++
		}
	}
	fobj := info.Defs[fd.Name]
	if idx < 0 || fobj == nil {
		return nil, false
	}
	var out []mEffect
	sites, resolved := 0, true
	for _, cd := range m.p.AllFuncDecls() {
		cinfo := m.p.InfoFor(cd)
		ast.Inspect(cd.Body, func(n ast.Node) bool {
			call, ok := n.(*ast.CallExpr)
			if !ok || calleeOf(cinfo, call) != fobj || idx >= len(call.Args) {
				return true
			}
			sites++
			switch a := ast.Unparen(call.Args[idx]).(type) {
			case *ast.FuncLit:
				for _, e := range m.effectsOfRegion(cinfo, cd, a.Body, a.Pos(), a.End(), depth+1) {
					e.Target, e.IndexObj = nil, nil
					out = append(out, e)
				}
			default:
				var o types.Object
				switch x := a.(type) {
				case *ast.Ident:
					o = cinfo.Uses[x]
				case *ast.SelectorExpr:
					o = cinfo.Uses[x.Sel]
				}
				if f, ok := o.(*types.Func); ok {
					if f.Pkg() == nil || !strings.HasPrefix(f.Pkg().Path(), modPath) {
						return true // library function: no effects on module state
					}
					if d := m.p.declOf[f]; d != nil && d.Body != nil {
						for _, e := range m.summary(f, d) {
							e.Target, e.IndexObj = nil, nil
							if e.Via == "" {
								e.Via = shortQual(qualName(f))
							}
							out = append(out, e)
						}
						return true
					}
				}
				resolved = false
			}
			return true
		})
	}
	if sites == 0 || !resolved {
		return nil, false
	}
	return out, true
}

func paramIndex(fn *types.Func, o types.Object) int {
	sig := fn.Type().(*types.Signature)
	for i := 0; i < sig.Params().Len(); i++ {
		if sig.Params().At(i) == o {
			return i
		}
	}
	return -1
}

func litParamIndex(info *types.Info, fl *ast.FuncLit, o types.Object) int {
	i := 0
	if fl.Type.Params == nil {
		return -1
	}
	for _, f := range fl.Type.Params.List {
		for _, n := range f.Names {
			if info.Defs[n] == o {
				return i
			}
			i++
		}
	}
	return -1
}

func findFuncLitFor(info *types.Info, fd *ast.FuncDecl, v *types.Var) *ast.FuncLit {
	var found *ast.FuncLit
	ast.Inspect(fd.Body, func(n ast.Node) bool {
		switch s := n.(type) {
		case *ast.AssignStmt:
			for i, l := range s.Lhs {
				if id, ok := l.(*ast.Ident); ok && (info.Defs[id] == v || info.Uses[id] == v) && i < len(s.Rhs) {
					if fl, ok := ast.Unparen(s.Rhs[i]).(*ast.FuncLit); ok {
						found = fl
					}
				}
			}
		case *ast.ValueSpec:
			for i, id := range s.Names {
				if info.Defs[id] == v && i < len(s.Values) {
					if fl, ok := ast.Unparen(s.Values[i]).(*ast.FuncLit); ok {
						found = fl
					}
				}
			}
		}
		return true
	})
	return found
}

// summary: escaping, potentially order-sensitive effects of a module function, parametric in the
// identity of parameters used as map index.
func (m *mapOrder) summary(fn *types.Func, decl *ast.FuncDecl) []mEffect {
	if s, ok := m.memo[fn]; ok {
		return s
	}
	if m.inProg[fn] {
		return nil
	}
	m.inProg[fn] = true
	info := m.p.InfoFor(decl)
	sig := fn.Type().(*types.Signature)
	// locals = everything declared in the body, plus by-value parameters that cannot alias caller state
	isRefParam := map[types.Object]bool{}
	addParam := func(v *types.Var) {
		if v == nil {
			return
		}
		switch v.Type().Underlying().(type) {
		case *types.Pointer, *types.Map, *types.Slice, *types.Interface, *types.Chan:
			isRefParam[v] = true
		}
	}
	addParam(sig.Recv())
	for i := 0; i < sig.Params().Len(); i++ {
		addParam(sig.Params().At(i))
	}
	m.summarising++
	all := m.effectsOfRegion(info, decl, decl.Body, decl.Body.Pos(), decl.Body.End(), 1)
	m.summarising--
	// effectsOfRegion treats parameters as non-local (declared before body.Pos()); drop effects whose
	// root is a by-value parameter (local copy); rebinding a slice/map parameter itself (s = append(s,..)
	// with no index/selector) is local too.
	var out []mEffect
	for _, e := range all {
		e.TargetParam = -1
		if e.Target != nil {
			if v, ok := e.Target.(*types.Var); ok && isParamOf(sig, v) {
				if sig.Recv() == v {
					e.TargetParam = 0
				} else if pi := paramIndex(fn, v); pi >= 0 {
					e.TargetParam = pi + 1
				}
				if !isRefParam[v] {
					continue
				}
				if e.Kind == effAppend && !e.Indexed && strings.HasPrefix(e.Desc, "append to "+v.Name()) && e.Desc == "append to "+v.Name() {
					continue
				}
				if e.Kind == effOverwrite && strings.HasPrefix(e.Desc, "last-wins store "+v.Name()+" =") {
					continue
				}
			}
		}
		out = append(out, e)
	}
	delete(m.inProg, fn)
	m.memo[fn] = out
	return out
}

func isParamOf(sig *types.Signature, v *types.Var) bool {
	if sig.Recv() == v {
		return true
	}
	for i := 0; i < sig.Params().Len(); i++ {
		if sig.Params().At(i) == v {
			return true
		}
	}
	for i := 0; i < sig.Results().Len(); i++ {
		if sig.Results().At(i) == v {
			return true
		}
	}
	return false
}

// singleKeyComparator: less is `func(i, j int) bool { return conv(x[i].F) < conv(x[j].F) }` (or > , or a
// cmp.Compare / strings.Compare of a.F and b.F for the slices package): the order is decided by field F alone.
// Returns F ("" when the elements themselves are compared).
func singleKeyComparator(info *types.Info, less ast.Expr, obj types.Object) (string, bool) {
	fl, ok := ast.Unparen(less).(*ast.FuncLit)
	if !ok || len(fl.Body.List) != 1 || fl.Type.Params == nil {
		return "", false
	}
	var ps []types.Object
	for _, f := range fl.Type.Params.List {
		for _, n := range f.Names {
			ps = append(ps, info.Defs[n])
		}
	}
	ret, ok := fl.Body.List[0].(*ast.ReturnStmt)
	if !ok || len(ret.Results) != 1 || len(ps) != 2 {
		return "", false
	}
	// side(e) = (parameter index, field) of `conv(x[p].F)` / `conv(p.F)`
	side := func(e ast.Expr) (int, string, bool) {
		e = ast.Unparen(e)
		for {
			call, ok := e.(*ast.CallExpr)
			if !ok || len(call.Args) != 1 {
				break
			}
			if tv, ok := info.Types[call.Fun]; !ok || !tv.IsType() {
				break
			}
			e = ast.Unparen(call.Args[0])
		}
		field := ""
		if se, ok := e.(*ast.SelectorExpr); ok {
			field = se.Sel.Name
			e = ast.Unparen(se.X)
		}
		if ix, ok := e.(*ast.IndexExpr); ok {
			if id, ok := ast.Unparen(ix.X).(*ast.Ident); ok && info.Uses[id] == obj {
				if pid, ok := ast.Unparen(ix.Index).(*ast.Ident); ok {
					for i, p := range ps {
						if info.Uses[pid] == p {
							return i, field, true
						}
					}
				}
			}
			return 0, "", false
		}
		if id, ok := e.(*ast.Ident); ok {
			for i, p := range ps {
				if info.Uses[id] == p {
					return i, field, true
				}
			}
		}
		return 0, "", false
	}
	var a, b ast.Expr
	switch x := ast.Unparen(ret.Results[0]).(type) {
	case *ast.BinaryExpr:
		if x.Op != token.LSS && x.Op != token.GTR {
			return "", false
		}
		a, b = x.X, x.Y
	case *ast.CallExpr:
		q := qualName(calleeOf(info, x))
		if (q != "cmp.Compare" && q != "strings.Compare") || len(x.Args) != 2 {
			return "", false
		}
		a, b = x.Args[0], x.Args[1]
	default:
		return "", false
	}
	ia, fa, okA := side(a)
	ib, fb, okB := side(b)
	if !okA || !okB || ia == ib || fa != fb {
		return "", false
	}
	return fa, true
}

// appendsCarryKey: every append to obj before `after` adds an element whose field F (or the element itself when
// F is "") is this loop's key - so no two elements compare equal and the comparator sort is total.
func appendsCarryKey(fd *ast.FuncDecl, info *types.Info, obj types.Object, field string, after token.Pos, keys map[types.Object]bool) bool {
	fromKey := func(e ast.Expr) bool {
		id := innermostIdentOrAssert(info, e)
		if id == nil {
			return false
		}
		o := info.Uses[id]
		if keys[o] {
			return true
		}
		// `k, ok := key.(T)` / `k := T(key)`
		derived := false
		ast.Inspect(fd.Body, func(n ast.Node) bool {
			as, ok := n.(*ast.AssignStmt)
			if !ok || len(as.Rhs) != 1 || len(as.Lhs) == 0 {
				return true
			}
			if l, ok := as.Lhs[0].(*ast.Ident); ok && (info.Defs[l] == o || info.Uses[l] == o) && o != nil {
				if kid := innermostIdentOrAssert(info, as.Rhs[0]); kid != nil && keys[info.Uses[kid]] {
					derived = true
				}
			}
			return true
		})
		return derived
	}
	n, all := 0, true
	ast.Inspect(fd.Body, func(x ast.Node) bool {
		as, ok := x.(*ast.AssignStmt)
		if !ok || as.Pos() > after || len(as.Lhs) != 1 || len(as.Rhs) != 1 {
			return true
		}
		l, ok := ast.Unparen(as.Lhs[0]).(*ast.Ident)
		if !ok || (info.Uses[l] != obj && info.Defs[l] != obj) {
			return true
		}
		call, ok := ast.Unparen(as.Rhs[0]).(*ast.CallExpr)
		if !ok || identOf(call.Fun).Name != "append" || call.Ellipsis.IsValid() {
			return true
		}
		for _, arg := range call.Args[1:] {
			n++
			if field == "" {
				if !fromKey(arg) {
					all = false
				}
				continue
			}
			cl, ok := ast.Unparen(arg).(*ast.CompositeLit)
			if !ok {
				all = false
				continue
			}
			found := false
			st, _ := info.TypeOf(cl).Underlying().(*types.Struct)
			for i, el := range cl.Elts {
				if kv, ok := el.(*ast.KeyValueExpr); ok {
					if identOf(kv.Key).Name == field && fromKey(kv.Value) {
						found = true
					}
				} else if st != nil && i < st.NumFields() && st.Field(i).Name() == field && fromKey(el) {
					found = true
				}
			}
			if !found {
				all = false
			}
		}
		return true
	})
	return n > 0 && all
}

func innermostIdentOrAssert(info *types.Info, e ast.Expr) *ast.Ident {
	for {
		switch x := ast.Unparen(e).(type) {
		case *ast.CallExpr:
			if len(x.Args) != 1 {
				return nil
			}
			if tv, ok := info.Types[x.Fun]; !ok || !tv.IsType() {
				return nil // only conversions keep the key's identity
			}
			e = x.Args[0]
		case *ast.TypeAssertExpr:
			e = x.X
		case *ast.Ident:
			return x
		default:
			return nil
		}
	}
}

func declParamIndex(info *types.Info, fd *ast.FuncDecl, v *types.Var) int {
	if fd.Type.Params == nil {
		return -1
	}
	i := 0
	for _, fl := range fd.Type.Params.List {
		for _, n := range fl.Names {
			if info.Defs[n] == v {
				return i
			}
			i++
		}
		if len(fl.Names) == 0 {
			i++
		}
	}
	return -1
}

// substituteFuncArg: the callee calls its function-valued parameter e.CallParam; the effects of that call are the
// effects of what this call site passes, seen from the caller (variables captured by a literal that are local to
// the caller's region do not escape it).
func (m *mapOrder) substituteFuncArg(info *types.Info, fd *ast.FuncDecl, call *ast.CallExpr, e mEffect, local func(types.Object) bool, depth int, via string) []mEffect {
	unknown := []mEffect{{Kind: effUnknown, Desc: "call of a function value passed to " + via, Pos: call.Pos(), TargetParam: -1}}
	if e.CallParam >= len(call.Args) || depth > 6 {
		return unknown
	}
	fromLit := func(fl *ast.FuncLit) []mEffect {
		var effs []mEffect
		for _, x := range m.effectsOfRegion(info, fd, fl.Body, fl.Pos(), fl.End(), depth+1) {
			if x.Target != nil && local(x.Target) {
				continue
			}
			if x.Indexed && x.IndexObj != nil && litParamIndex(info, fl, x.IndexObj) >= 0 {
				x.IndexObj = nil // the literal's own parameter: no identity at this site
			}
			if x.Via == "" {
				x.Via = via + " -> function literal"
			}
			x.Pos = call.Pos()
			effs = append(effs, x)
		}
		return effs
	}
	switch a := ast.Unparen(call.Args[e.CallParam]).(type) {
	case *ast.FuncLit:
		return fromLit(a)
	case *ast.Ident, *ast.SelectorExpr:
		var o types.Object
		if id, ok := a.(*ast.Ident); ok {
			o = info.Uses[id]
		} else {
			o = info.Uses[a.(*ast.SelectorExpr).Sel]
		}
		switch f := o.(type) {
		case *types.Func:
			if f.Pkg() == nil || !strings.HasPrefix(f.Pkg().Path(), modPath) {
				return nil
			}
			if d := m.p.declOf[f]; d != nil && d.Body != nil {
				var effs []mEffect
				for _, x := range m.summary(f, d) {
					if x.Kind == effCallParam {
						return unknown
					}
					x.Target, x.IndexObj, x.TargetParam = nil, nil, -1
					if x.Via == "" {
						x.Via = via + " -> " + shortQual(qualName(f))
					}
					x.Pos = call.Pos()
					effs = append(effs, x)
				}
				return effs
			}
		case *types.Var:
			if fl := findFuncLitFor(info, fd, f); fl != nil {
				return fromLit(fl)
			}
			if pi := declParamIndex(info, fd, f); pi >= 0 {
				if m.summarising > 0 {
					return []mEffect{{Kind: effCallParam, CallParam: pi, Desc: e.Desc, Pos: call.Pos(), TargetParam: -1}}
				}
				if effs, ok := m.paramFuncEffects(info, fd, f, depth); ok {
					return effs
				}
			}
		}
	}
	return unknown
}

// isIteratorYield: v is the single parameter of a function literal inside fd (the shape of an iter.Seq / iter.Seq2
// implementation).
func isIteratorYield(info *types.Info, fd *ast.FuncDecl, v *types.Var) bool {
	found := false
	ast.Inspect(fd.Body, func(n ast.Node) bool {
		fl, ok := n.(*ast.FuncLit)
		if !ok || fl.Type.Params == nil || len(fl.Type.Params.List) != 1 || len(fl.Type.Params.List[0].Names) != 1 {
			return true
		}
		if info.Defs[fl.Type.Params.List[0].Names[0]] == v && (fl.Type.Results == nil || len(fl.Type.Results.List) == 0) {
			found = true
		}
		return true
	})
	return found
}
