// copy to: internal/server  (fails on the tree before 168b546: about half of the rounds; passes from 168b546 on)
package server

import (
	"sync"
	"testing"
)

// Two configuration refreshes that overlap: the CLI client that ends up installed must be the one
// built for the settings that ended up stored.
func TestDemoCLIClientMatchesFinalSettings(t *testing.T) {
	mismatches := 0
	for round := 0; round < 60; round++ {
		s := NewServer()
		var wg sync.WaitGroup
		wg.Add(2)
		slow := func() {
			defer wg.Done()
			s.updateSettings(func(cur serverSettings) serverSettings { cur.CLI.Path = "/bin/true"; return cur })
		}
		fast := func() {
			defer wg.Done()
			s.updateSettings(func(cur serverSettings) serverSettings { cur.CLI.Path = "/nonexistent/hledger"; return cur })
		}
		if round%2 == 0 {
			go slow()
			go fast()
		} else {
			go fast()
			go slow()
		}
		wg.Wait()
		wantAvailable := s.getSettings().CLI.Path == "/bin/true"
		if s.getCLIClient().Available() != wantAvailable {
			mismatches++
		}
	}
	if mismatches > 0 {
		t.Fatalf("%d of 60 rounds: the installed CLI client was not built for the stored settings", mismatches)
	}
}
